#!/usr/bin/env python3
"""development aid: turn a --dump-unlisted file into input-keyed entries of known_findings.json
   add_input_findings.py PROPERTY dump.json 'mech' 'finding id' 'what'   (only fails with that mech)"""
import json, sys
pid, dump, mech, fid, what = sys.argv[1:6]
kf = json.load(open('known_findings.json'))
keys = sorted({f['key'] for f in json.load(open(dump)) if f['mech'] == mech})
ent = next((f for f in kf['findings'] if f.get('id') == fid), None)
if ent is None:
    ent = {'id': fid, 'property': pid, 'kind': 'input', 'mech': mech, 'what': what, 'keys': []}
    kf['findings'].append(ent)
ent['keys'] = sorted(set(ent['keys']) | set(keys))
json.dump(kf, open('known_findings.json', 'w'), indent=1, ensure_ascii=False)
print(fid, len(ent['keys']), 'keys')
