#!/bin/sh
# tools/try_seed.sh <seed dir> <tier> <check id>...   apply a seeded change to /repo, run the demo and the checks, undo it
d="$1"; tier="$2"; shift 2
cd /repo || exit 2
if [ -n "$(git status --porcelain)" ]; then echo "repo not clean"; exit 2; fi
L=/repo/Python/libraries
export PYTHONDONTWRITEBYTECODE=1
PP=/verif/shims:$L/recognizers-text:$L/recognizers-number:$L/recognizers-number-with-unit:$L/recognizers-date-time:$L/recognizers-sequence:$L/recognizers-choice:$L/datatypes-timex-expression:$L/recognizers-suite
PYTHONPATH=$PP /venv/bin/python "$d/demo.py" >/tmp/demo-clean.txt 2>&1; echo "demo on clean tree: rc=$?"
git apply "$d/patch.diff" || { echo "patch does not apply"; exit 2; }
PYTHONPATH=$PP /venv/bin/python "$d/demo.py" >/tmp/demo-patched.txt 2>&1; echo "demo with patch: rc=$? ($(tail -1 /tmp/demo-patched.txt | cut -c1-160))"
cd /verif
bak=$(mktemp -d /tmp/evid.XXXXXX); cp evidence/*.json $bak/ 2>/dev/null
for id in "$@"; do
  out=$(./check $id --tier $tier 2>&1); rc=$?
  echo "check $id ($tier) with patch: rc=$rc :: $(echo "$out" | grep "^$id tier" | cut -c1-140)"
  echo "$out" | grep -A1 VIOLATION | head -6 | cut -c1-330
done
cp $bak/*.json evidence/ 2>/dev/null; rm -rf $bak   # evidence files must describe the unchanged tree
git -C /repo checkout -- . ; git -C /repo status --porcelain | head -3
