#!/usr/bin/env python3
"""CRLF-preserving exact replacement: sub.py FILE <<< JSON [[old,new],...]  (old/new written with \n)"""
import json, sys
p = sys.argv[1]
raw = open(p, 'rb').read().decode('utf-8')
crlf = '\r\n' in raw
s = raw.replace('\r\n', '\n')
for old, new in json.load(sys.stdin):
    assert s.count(old) == 1, (p, s.count(old), old[:60])
    s = s.replace(old, new)
if crlf:
    s = s.replace('\n', '\r\n')
open(p, 'wb').write(s.encode('utf-8'))
