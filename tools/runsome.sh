#!/bin/sh
# tools/runsome.sh <tier> <seed> <id>...  - run the named checks, one status line each
tier="$1"; seed="$2"; shift 2
cd "$(dirname "$0")/.." || exit 2
for id in "$@"; do
  s=$(date +%s)
  out=$(VERIF_SEED=$seed ./check $id --tier $tier 2>&1); rc=$?
  echo "$id rc=$rc $(( $(date +%s) - s ))s :: $(echo "$out" | grep "^$id tier" | cut -c1-160)"
  [ $rc -ne 0 ] && echo "$out" | grep -E -A1 "VIOLATION|INCONCLUSIVE" | head -12 | cut -c1-400
done
