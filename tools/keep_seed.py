#!/usr/bin/env python3
"""keep_seed.py <src dir> <seed name> <breaks property> <caught by: comma list 'C07:quick'> [note]  -> seeded/<name>/"""
import json, os, shutil, subprocess, sys
src, name, prop, caught = sys.argv[1:5]
note = sys.argv[5] if len(sys.argv) > 5 else ''
dst = os.path.join('/verif/seeded', name)
os.makedirs(dst, exist_ok=True)
for f in ('patch.diff', 'demo.py'):
    shutil.copyfile(os.path.join(src, f), os.path.join(dst, f))
meta = {}
try:
    meta = json.load(open(os.path.join(src, 'meta.json')))
except Exception as e:
    meta = {'summary': 'meta.json of the author could not be read: %r' % e}
head = subprocess.run(['git', '-C', '/repo', 'rev-parse', '--short', 'HEAD'], capture_output=True, text=True).stdout.strip()
meta.update({'breaks_property': prop, 'origin': 'independent sub-agent given only the property text and a scratch worktree',
             'verified_by_me': 'applied to /repo @%s with git apply: demo.py exits 0 on the clean tree and 1 with the patch; pinned suite still 204 passed; undone with git checkout' % head,
             'caught_by': [c for c in caught.split(',') if c], 'note': note})
json.dump(meta, open(os.path.join(dst, 'meta.json'), 'w'), indent=1, ensure_ascii=False)
print('kept', dst)
