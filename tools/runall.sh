#!/bin/sh
# tools/runall.sh [tier] [seed]  - run every claimed check, print one status line each
tier="${1:-quick}"; seed="${2:-0}"
cd "$(dirname "$0")/.." || exit 2
for id in $(python3 -c "import json;print(' '.join(c['property_id'] for c in json.load(open('MANIFEST.json'))['checks']))"); do
  s=$(date +%s)
  out=$(VERIF_SEED=$seed ./check $id --tier $tier 2>&1); rc=$?
  echo "$id rc=$rc $(( $(date +%s) - s ))s :: $(echo "$out" | grep "^$id tier" | cut -c1-160)"
  [ $rc -ne 0 ] && echo "$out" | grep -E "VIOLATION|INCONCLUSIVE" | head -5 | cut -c1-300
done
