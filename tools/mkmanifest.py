#!/usr/bin/env python3
"""Regenerates MANIFEST.json from the checker modules that exist (python3 tools/mkmanifest.py)."""
import json
import os
import subprocess

HERE = os.path.dirname(os.path.dirname(os.path.abspath(__file__)))

META = {
    'C01': ('exploration', 'boundary monitor + independent length-preserving normaliser over corpus x all models, generated expressions, hostile noise',
            'Held on the recorded executions only: every Model.parse return of every registered (model, culture) pair is checked for 0<=start<=end<len(q) and text==slice under a normaliser written for the harness. Exploration is the right level: the input space is unbounded and the code is regex-driven, so reach comes from corpus + generators + hostile token pool.', '3 C01'),
    'C02': ('exploration', 'history monitor: call/return log across orders, cold/warm caches, threads with sys.monitoring yield injection, virtual clock; oracle = sequential pure-function map',
            'Each pool tuple is observed under several schedules (cold process, permuted, warm x3, 8-16 threads plain and with statement-level forced GIL hand-offs, import on a non-main thread, three virtual wall-clock instants); every observation of a tuple must be the same value. Schedules are sampled, not enumerated.', '3 C02'),
    'C03': ('exploration', 'value-carrying generator + numeric/format oracle on resolution value', 'Generated literals carry their value; the oracle re-reads the resolution string as a Decimal and checks marks. Sampling of 10^15 values with boundary bias; exhaustive below 10^4 in the thorough tier.', '3 C03'),
    'C04': ('exploration', 'numeral-grammar generators (9 languages) carry the integer; monitor compares resolution', 'Independent numeral grammars produce the standard spelling of n; the monitor checks one entity, exact span, value == n. Exhaustive below 10^4 (thorough), boundary and seeded sampling above.', '3 C04'),
    'C05': ('exploration', 'exhaustive walk of the live unit tables of every model configuration', 'Every (unit, spelling) pair wired into each live NumberWithUnit model is executed with several numerals; finite and enumerated completely, so the level is exploration with exhaustive=true over the tables.', '3 C05'),
    'C06': ('exploration', 'date generator x layouts x random references; oracle date.isoformat()', 'Dates carry their value; two references per sampled case decide the independence clause.', '3 C06'),
    'C07': ('exploration', 'all (h,m[,s]) x spellings; 24-hour arithmetic oracle', 'All 1440 HH:MM, stratified seconds, all 12-hour spellings, composed with dates.', '3 C07'),
    'C08': ('exploration', 'reference sweep x expression families; stdlib calendar oracle', 'References are chosen at the calendar boundaries the property names plus seeded ones.', '3 C08'),
    'C09': ('exploration', '(month,day)/weekday x reference sweep; strict-before / on-or-after oracle', 'All 366 month-days and 7 weekdays against references before/on/after.', '3 C09'),
    'C10': ('exploration', 'duration/range generators + triple-consistency monitor on every range the corpus produces', 'Generated durations and endpoint pairs with known answers, plus an online arithmetic monitor on every (start,end,duration) TIMEX emitted on the supported corpus in all cultures.', '3 C10'),
    'C11': ('exploration', 'well-formedness validator on every date-time value emitted in corpus and generated workloads', 'A type-directed validator is applied to every resolution value the date-time models emit.', '3 C11'),
    'C12': ('exploration', 'interval-disjointness monitor on every Model.parse return + merge-trace classifier', 'Spans of each return event are sorted and checked pairwise; a merge-trace hook attributes overlaps to the add_to step that let them through.', '3 C12'),
    'C13': ('exploration', 'ipaddress/uuid oracles, boundary-octet product, near-miss generator, grammar generators', 'Boundary octets are enumerated completely (10^4), the rest is seeded sampling with stdlib oracles.', '3 C13'),
    'C14': ('exploration', 'grammar-complete TIMEX generator; parse/format/parse monitor with expected field values', 'One generator per TimexRegex alternative; the monitor compares observed fields with the fields the string was built from, then round trip, idempotence, canonical fixed point, and from_* constructors.', '3 C14'),
    'C15': ('exploration', 'calendar oracle for TimexResolver; brute-force set oracle for TimexRangeResolver', 'Resolver outputs are compared with stdlib calendar arithmetic; constraint solving with brute force over a 2-year window.', '3 C15'),
    'C16': ('exploration', 'structural token invariants + brute-force matcher model', 'Exhaustive for tiny sizes, seeded beyond; the reference matcher works on the tokenizer\'s own boundaries.', '3 C16'),
    'C17': ('exploration', 'factory/cache event monitor with constructor provenance tags; routing spec function', 'Random request histories over all recognisers, getters, culture strings, options and fallback; identity and provenance of every returned model is checked.', '3 C17'),
    'C18': ('translation_validation', 'run the repository\'s generator on Patterns/ and compare definition by definition with checked-in and live classes', 'The generator is executed, not modelled; every definition of every generated module is compared.', '3 C18'),
    'C19': ('exploration', 'whole Specs corpus through the repository\'s runner semantics + strict comparator', 'Exhaustive over the Python-supported corpus.', '3 C19'),
    'C20': ('exploration', 'enumerate regex alternatives x case x wrappers; polarity oracle', 'Alternatives are parsed out of the live resource and enumerated.', '3 C20'),
}
NOTE = ('Trusted base: CPython 3.12 in /venv, the third-party regex/emoji/multipledispatch packages, the harness oracles '
        '(stdlib datetime/ipaddress/uuid/decimal), and shims/datedelta.py + shims/grapheme standing in for two PyPI '
        'packages that cannot be installed offline. The library under test is imported from /repo/Python/libraries '
        '(asserted per worker); nothing is cached between runs.')


def main():
    checks, na = [], []
    for pid in sorted(META):
        level, tech, text, ref = META[pid]
        if os.path.exists(os.path.join(HERE, 'rtmon', 'checkers', pid.lower() + '.py')):
            checks.append({
                'property_id': pid,
                'quick_cmd': './check %s --tier quick' % pid,
                'thorough_cmd': './check %s --tier thorough' % pid,
                'evidence_file': 'evidence/%s.json' % pid,
                'replay_cmd_template': './check %s --replay {path}' % pid,
                'engine': 'rtmon',
                'level_claimed': {'category': level, 'text': text, 'design_ref': 'DESIGN.md section ' + ref},
                'level_note': NOTE,
                'technique': 'runtime monitoring: ' + tech,
            })
        else:
            na.append({'property_id': pid, 'reason': 'check not built yet (runtime monitor designed in DESIGN.md section %s); not claimed until its checker exists' % ref})
    doc = {
        'version': 1,
        'setup_cmd': './setup.sh',
        'hooks': {
            'guard': 'RECOGNIZERS_TEXT_VERIF',
            'enable': 'no source hooks: monitors are attached from the harness (wrappers, sys.monitoring) before/after import; the guard variable is set by the harness for its worker interpreters only',
            'baseline_off_cmd': 'cd /repo && /venv/bin/python -m pytest -ra -q -p no:cacheprovider --timeout=900 --continue-on-collection-errors',
            'source_commits': [],
            'add_only': True,
        },
        'engines': [{'name': 'rtmon', 'path': 'rtmon/', 'serves_properties': [c['property_id'] for c in checks],
                     'kind_free_text': 'runtime monitoring harness: worker interpreters run the working tree under boundary/swallow/cache/merge-trace/clock/yield monitors; offline checkers decide on the recorded events'}],
        'checks': checks,
        'not_applicable': na,
        'notes': 'Exit codes: 0 held on what was observed (KNOWN-FINDING lines for listed defects), 1 unlisted violation (VIOLATION lines), 2 inconclusive. Findings and repairs: known_findings.json, DESIGN.md section 2.7.',
    }
    with open(os.path.join(HERE, 'MANIFEST.json'), 'w') as f:
        json.dump(doc, f, indent=1)
        f.write('\n')
    print('claimed', [c['property_id'] for c in checks])


if __name__ == '__main__':
    main()
