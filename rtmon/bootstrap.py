"""Makes the *working tree* under /repo the library that runs, and proves it.

The pinned 204 tests import the PyPI wheels in /venv/site-packages; everything in
/verif must instead execute /repo/Python/libraries/*.  `install()` puts the eight
library directories (and the two shims for the packages that cannot be installed
offline) first on sys.path; `origins()` returns module -> file for every loaded
library module and raises `Inconclusive` when one of them was not loaded from the
tree.
"""
import os
import sys
import warnings

VERIF = os.path.dirname(os.path.dirname(os.path.abspath(__file__)))
REPO = os.path.realpath(os.environ.get('RT_REPO_ROOT', '/repo'))
LIBROOT = os.path.join(REPO, 'Python', 'libraries')
LIB_DIRS = [
    'recognizers-text', 'recognizers-number', 'recognizers-number-with-unit',
    'recognizers-date-time', 'recognizers-sequence', 'recognizers-choice',
    'datatypes-timex-expression', 'recognizers-suite',
]
LIB_PREFIXES = ('recognizers_text', 'recognizers_number', 'recognizers_number_with_unit',
                'recognizers_date_time', 'recognizers_sequence', 'recognizers_choice',
                'datatypes_timex_expression', 'recognizers_suite')
GUARD = 'RECOGNIZERS_TEXT_VERIF'


class Inconclusive(Exception):
    """A deciding monitor could not observe anything; never folded into held/violated."""


def lib_paths():
    return [os.path.join(VERIF, 'shims')] + [os.path.join(LIBROOT, d) for d in LIB_DIRS]


def install():
    sys.dont_write_bytecode = True
    warnings.simplefilter('ignore')
    paths = lib_paths()
    for p in paths:
        while p in sys.path:
            sys.path.remove(p)
    sys.path[0:0] = paths
    os.environ[GUARD] = '1'


def child_env(extra=None):
    env = dict(os.environ)
    env['PYTHONDONTWRITEBYTECODE'] = '1'
    env.setdefault('PYTHONHASHSEED', '0')
    env['PYTHONPATH'] = os.pathsep.join([VERIF] + lib_paths())
    env['PYTHONWARNINGS'] = 'ignore'
    env[GUARD] = '1'
    if extra:
        env.update(extra)
    return env


def origins():
    out = {}
    for name, mod in list(sys.modules.items()):
        if name.split('.')[0] in LIB_PREFIXES or name in ('datedelta', 'grapheme', 'grapheme.api'):
            f = getattr(mod, '__file__', None)
            if f:
                out[name] = os.path.realpath(f)
    return out


def assert_origins():
    """module -> file, top-level packages only, after checking every library module is the tree's."""
    o = origins()
    bad = {n: f for n, f in o.items()
           if n.split('.')[0] in LIB_PREFIXES and not f.startswith(LIBROOT + os.sep)}
    if bad:
        raise Inconclusive('library modules not loaded from %s: %r' % (LIBROOT, sorted(bad.items())[:3]))
    top = {n: f for n, f in o.items() if '.' not in n}
    return top
