"""C09 - dates without a year resolve to the nearest past and next future occurrence.

Oracle: exactly two values [latest occurrence strictly before R.date, earliest occurrence on or
after R.date], TIMEX XXXX-MM-DD / XXXX-WXX-n; 29 February -> neighbouring leap years.
"""
import datetime as dt

from rtmon import dtlib

LEVEL = 'exploration'
RULE = ('all 366 (month, day) x layouts {Month d, m/d, d Month} and the 7 weekday names x references that put the stated day before, ON and '
        'after the reference day, at midnight and not, plus boundary and seeded references 1950..2090 (quick tier: every month-day once '
        'with 3 references; thorough: every month-day with 12 references). non-trivial = one entity with two values; distinct = distinct '
        '(query, reference). 29 February is additionally asked against every reference year 1950..2090; weekday names and "d <month name>" forms of es, fr, de, it, nl, pt, zh against boundary and seeded references.')
EXHAUSTIVE = False
JOB_TIMEOUT = 5400
DIM = [31, 29, 31, 30, 31, 30, 31, 31, 30, 31, 30, 31]


def occ(mo, d, D):
    def mk(y):
        try:
            return dt.date(y, mo, d)
        except ValueError:
            return None
    past, y = None, D.year
    while past is None:
        c = mk(y)
        if c and c < D:
            past = c
        y -= 1
    fut, y = None, D.year
    while fut is None:
        c = mk(y)
        if c and c >= D:
            fut = c
        y += 1
    return past, fut


WD_CULT = {'es-es': ['lunes', 'martes', 'miércoles', 'jueves', 'viernes', 'sábado', 'domingo'], 'fr-fr': ['lundi', 'mardi', 'mercredi', 'jeudi', 'vendredi', 'samedi', 'dimanche'],
           'de-de': ['Montag', 'Dienstag', 'Mittwoch', 'Donnerstag', 'Freitag', 'Samstag', 'Sonntag'], 'it-it': ['lunedì', 'martedì', 'mercoledì', 'giovedì', 'venerdì', 'sabato', 'domenica'],
           'nl-nl': ['maandag', 'dinsdag', 'woensdag', 'donderdag', 'vrijdag', 'zaterdag', 'zondag'],
           'pt-br': ['segunda-feira', 'terça-feira', 'quarta-feira', 'quinta-feira', 'sexta-feira', 'sábado', 'domingo'],
           'zh-cn': ['星期一', '星期二', '星期三', '星期四', '星期五', '星期六', '星期日']}
MD_CULT = {'es-es': lambda mo, d, M: '%d de %s' % (d, M[mo - 1]), 'fr-fr': lambda mo, d, M: '%d %s' % (d, M[mo - 1]), 'de-de': lambda mo, d, M: '%d. %s' % (d, M[mo - 1]),
           'it-it': lambda mo, d, M: '%d %s' % (d, M[mo - 1]), 'nl-nl': lambda mo, d, M: '%d %s' % (d, M[mo - 1]), 'pt-br': lambda mo, d, M: '%d de %s' % (d, M[mo - 1]),
           'zh-cn': lambda mo, d, M: '%d月%d日' % (mo, d)}


def check(m, q, R, want, timex, ctx, cls, rel, culture='en-us'):
    from rtmon import lib
    where = {'model': 'DateTimeModel', 'culture': culture, 'cls': cls}
    case = {'query': q, 'reference': R.isoformat(), 'want': want, 'timex': timex, 'cls': cls, 'rel': rel}
    key = '%s|%s|%s' % (culture, q, R.isoformat())
    lib.take_swallowed()
    try:
        r = m.parse(q, R)
    except Exception as e:
        ctx.observe(key=key, cell=cls)
        ctx.fail('exception', where, key, case, want, repr(e))
        return
    obs = dtlib.view(r)
    ctx.event('boundary_calls')
    ok2 = len(r) == 1 and r[0].resolution is not None and len(dtlib.vals(r[0])) == 2
    ctx.observe(key=key, nontrivial=ok2, cell=cls + ':' + rel, sample={'query': q, 'reference': R.isoformat(), 'observed': obs})
    mech = None
    if not r:
        mech = 'missed'
    elif len(r) > 1:
        mech = 'split'
    else:
        e = r[0]
        vs = dtlib.vals(e)
        got = [v.get('value') for v in vs]
        if e.resolution is None or not vs:
            mech = 'unresolved'
        elif (e.start, e.end) != (0, len(q) - 1):
            mech = 'wrong-span'
        elif e.type_name != 'datetimeV2.date':
            mech = 'wrong-type'
        elif got != want:
            mech = 'wrong-candidates'
            # shape of the wrong output for the known-finding classifier: the stated day IS the reference day, the
            # reference is not at midnight, and the answer is [today, the occurrence after today]
            D = R.date()
            if cls.startswith('monthday') and rel == 'on' and R.time() != dt.time(0, 0):
                nxt = occ(int(timex[5:7]), int(timex[8:10]), D + dt.timedelta(days=1))[1]
                if got == [D.isoformat(), nxt.isoformat()]:
                    mech = 'same-day-nonmidnight-reference-gives-today-and-next'
        elif any(v.get('timex') != timex for v in vs):
            mech = 'wrong-timex'
    if mech:
        ctx.fail(mech + ':' + cls.split('|')[0], where, key, case, {'values': want, 'timex': timex}, {'entities': obs, 'swallowed': lib.take_swallowed()})


def refs_for(r, mo, d, n):
    """references placing (mo, d) before / on / after the reference day"""
    out = []
    for _ in range(n):
        y = r.randrange(1951, 2090)
        if (mo, d) == (2, 29):
            y = r.choice([yy for yy in range(1952, 2089, 4)])
        base = dt.date(y, mo, d)
        for rel, off in (('on', 0), ('after', r.randrange(1, 200)), ('before', -r.randrange(1, 160))):
            D = base - dt.timedelta(days=off)     # off>0: the stated day lies after the reference
            t = r.choice([dt.time(0, 0), dt.time(r.randrange(24), r.randrange(60), r.randrange(60))])
            if rel == 'on':
                for t in (dt.time(0, 0), dt.time(r.randrange(1, 24), r.randrange(60))):
                    out.append((rel + ('-midnight' if t == dt.time(0, 0) else '-nonmidnight'), dt.datetime.combine(D, t)))
            else:
                out.append((rel, dt.datetime.combine(D, t)))
    return out


def gen(ctx):
    r = ctx.rng('c09')
    per = 1 if ctx.tier == 'quick' else 4
    for mo in range(1, 13):
        for d in range(1, DIM[mo - 1] + 1):
            forms = [('Month d', '%s %d' % (dtlib.MON_EN[mo - 1], d)), ('m/d', '%d/%d' % (mo, d)), ('d Month', '%d %s' % (d, dtlib.MON_EN[mo - 1]))]
            for rel, R in refs_for(r, mo, d, per):
                p, f = occ(mo, d, R.date())
                name, q = r.choice(forms) if ctx.tier == 'quick' else (None, None)
                for name, q in ([(name, q)] if name else forms):
                    yield q, R, [p.isoformat(), f.isoformat()], 'XXXX-%02d-%02d' % (mo, d), 'monthday|' + name, rel.split('-')[0] if not rel.startswith('on') else 'on' if 'non' in rel else 'on0'
    # 29 February against EVERY reference year (century rules: 2000 is a leap year, 1900 and 2100 are not)
    for y in range(1950, 2091):
        days = [dt.date(y, r.randrange(3, 13), r.randrange(1, 29)), dt.date(y, 2, 28), dt.date(y, 3, 1), dt.date(y, 1, r.randrange(1, 29))]
        if y % 4 == 0 and (y % 100 != 0 or y % 400 == 0):
            days.append(dt.date(y, 2, 29))
        for D in (days if ctx.tier == 'thorough' else days[:1] + [r.choice(days[1:])]):
            R = dt.datetime.combine(D, r.choice([dt.time(0, 0), dt.time(r.randrange(24), r.randrange(60))]))
            p, f = occ(2, 29, D)
            name, q = r.choice([('Month d', 'February 29'), ('m/d', '2/29'), ('d Month', '29 February')])
            rel = 'on' if (D.month, D.day) == (2, 29) and R.time() != dt.time(0, 0) else 'on0' if (D.month, D.day) == (2, 29) else 'other'
            yield q, R, [p.isoformat(), f.isoformat()], 'XXXX-02-29', 'monthday|' + name, rel
    refs = dtlib.refs(r, 20 if ctx.tier == 'quick' else 600)
    for R in refs:
        D = R.date()
        for i, w in enumerate(dtlib.WD_EN):
            delta = (i - D.weekday()) % 7
            f = D + dt.timedelta(days=delta)
            p = f - dt.timedelta(days=7)
            yield w, R, [p.isoformat(), f.isoformat()], 'XXXX-WXX-%d' % (i + 1), 'weekday', 'on' if delta == 0 and R.time() != dt.time(0, 0) else 'on0' if delta == 0 else 'other'


def gen_culture(ctx, cu):
    r = ctx.rng('c09:' + cu)
    M = dtlib.CULT[cu]['months']
    refs = dtlib.refs(r, 6 if ctx.tier == 'quick' else 150)
    for R in (refs if ctx.tier == 'thorough' else r.sample(refs, 12)):
        D = R.date()
        for i, w in enumerate(WD_CULT[cu]):
            delta = (i - D.weekday()) % 7
            f = D + dt.timedelta(days=delta)
            p = f - dt.timedelta(days=7)
            yield w, R, [p.isoformat(), f.isoformat()], 'XXXX-WXX-%d' % (i + 1), 'weekday', 'on' if delta == 0 and R.time() != dt.time(0, 0) else 'on0' if delta == 0 else 'other'
        mds = [(r.randrange(1, 13), r.randrange(1, 29)) for _ in range(4)] + [(2, 29), (12, 31), (1, 1), (D.month, D.day)]
        for mo, d in mds:
            try:
                dt.date(2000, mo, d)
            except ValueError:
                continue
            p, f = occ(mo, d, D)
            rel = 'other'
            if (mo, d) == (D.month, D.day):
                rel = 'on' if R.time() != dt.time(0, 0) else 'on0'
            yield MD_CULT[cu](mo, d, M), R, [p.isoformat(), f.isoformat()], 'XXXX-%02d-%02d' % (mo, d), 'monthday|name', rel


# year-less NUMERIC dates behind the culture's own preposition / article, both separators, day-first cultures: d-m and d/m, both numbers <= 12
NUM_CARRIERS = {'es-es': ['{}', 'el {}', 'nos vemos el {}'], 'fr-fr': ['{}', 'le {}', 'je pars le {}'], 'pt-br': ['{}', 'em {}', 'vou em {}', 'no {}'], 'it-it': ['{}', 'il {}', 'parto il {}'],
                'de-de': ['{}', 'am {}', 'ich komme am {}'], 'nl-nl': ['{}', 'op {}', 'ik vertrek op {}']}


def run_numeric_culture(job, ctx):
    from rtmon import lib
    cu = job['culture']
    m = dtlib.dt_model(cu)
    r = ctx.rng('c09:num:' + cu)
    n = 40 if ctx.tier == 'quick' else 600
    for _ in range(n):
        d, mo = r.randrange(1, 13), r.randrange(1, 13)
        if d == mo:
            continue
        R = dtlib.rand_ref(r)
        if (R.month, R.day) == (mo, d):
            continue
        for sep in (['/', '-'] if cu != 'de-de' else ['.', '/']):
            expr = r.choice(['%d%s%d', '%02d%s%02d']) % (d, sep, mo)
            for car in NUM_CARRIERS[cu]:
                if car == '{}' and sep != '/':
                    continue          # a bare 'd-m' / 'd.m' without its article is not taken for a date by the unchanged tree (it could be anything)
                q = car.format(expr)
                st = q.index(expr)
                en = st + len(expr) - 1
                pv, fv = occ(mo, d, R.date())
                want = {'timex': 'XXXX-%02d-%02d' % (mo, d), 'values': [pv.isoformat(), fv.isoformat()]}
                where = {'model': 'DateTimeModel', 'culture': cu, 'cls': 'numeric day-first|' + sep}
                key = '%s|%s|%s' % (cu, q, R.isoformat())
                case = {'culture': cu, 'query': q, 'reference': R.isoformat(), 'expr': expr}
                res = [e for e in m.parse(q, R) if e.start <= en and e.end >= st]
                ctx.event('boundary_calls')
                ctx.observe(key=key, nontrivial=len(res) == 1, cell=cu + ':numeric', sample={'culture': cu, 'query': q, 'observed': dtlib.view(res)})
                ok = (len(res) == 1 and res[0].type_name == 'datetimeV2.date' and res[0].end == en and res[0].start <= st and
                      [v.get('timex') for v in dtlib.vals(res[0])] == [want['timex']] * 2 and [v.get('value') for v in dtlib.vals(res[0])] == want['values'])
                if not ok:
                    mech = 'numeric-date-not-read-day-first'
                    swapped = 'XXXX-%02d-%02d' % (d, mo)
                    if cu == 'fr-fr' and sep == '-' and len(res) == 1 and [v.get('timex') for v in dtlib.vals(res[0])] == [swapped] * 2:
                        mech = 'fr-dash-date-read-month-first'          # known-finding classifier
                    ctx.fail(mech, where, key, case, want, dtlib.view(res))


PAIR_JOIN = {'en-us': ' and ', 'es-es': ' y el ', 'fr-fr': ' et le ', 'it-it': ' e il ', 'pt-br': ' e ', 'nl-nl': ' en ', 'de-de': ' und '}


def run_pairs(job, ctx):
    """two year-less numeric dates in one sentence (and in consecutive calls under one reference object): each is read exactly as it is
    read alone - what the first date looked like (day first / month first, day above 12) must not change the reading of the second"""
    from rtmon import lib
    cu = job['culture']
    m = dtlib.dt_model(cu)
    r = ctx.rng('pairs:' + cu)
    seps = ['/', '-'] if cu != 'de-de' else ['.', '/']
    n = 60 if ctx.tier == 'quick' else 800
    for _ in range(n):
        sep = r.choice(seps)
        big, small = r.randrange(13, 29), r.randrange(1, 13)
        first = r.choice(['%d%s%d' % (big, sep, small), '%d%s%d' % (small, sep, big), '%d%s%d' % (r.randrange(1, 13), sep, r.randrange(1, 13))])
        second = '%d%s%d' % (r.randrange(1, 13), sep, r.randrange(1, 13))
        if r.random() < 0.3:
            # the text of the second date also occurs INSIDE the first one ('15/4' ... '5/4', '5/20' ... '5/2')
            a, b = r.randrange(1, 10), r.randrange(1, 13)
            if r.random() < 0.5:
                first, second = '1%d%s%d' % (a, sep, b), '%d%s%d' % (a, sep, b)
            else:
                b = r.randrange(1, 3)
                first, second = '%d%s%d%d' % (a, sep, b, r.randrange(0, 9)), '%d%s%d' % (a, sep, b)
        R = dtlib.rand_ref(r)
        where = {'model': 'DateTimeModel', 'culture': cu, 'cls': 'pair'}

        def view(q):
            return [(e.text, e.type_name, [(v.get('timex'), v.get('value')) for v in dtlib.vals(e)]) for e in m.parse(q, R)]
        alone = {}
        for x in (first, second):
            alone[x] = view(x)
        # consecutive calls, same reference object
        again = view(second)
        q = first + PAIR_JOIN[cu] + second
        both = view(q)
        key = '%s|%s|%s' % (cu, q, R.isoformat())
        case = {'culture': cu, 'query': q, 'first': first, 'second': second, 'reference': R.isoformat()}
        ctx.event('boundary_calls', 4)
        usable = len(alone[first]) == 1 and len(alone[second]) == 1
        ctx.observe(key=key, nontrivial=usable and len(both) == 2, cell=cu + ':pair', sample={'culture': cu, 'query': q, 'observed': both})
        # the options a recogniser is built with (skip-from-to merge, split date and time, calendar) do not touch a plain year-less date
        for opt in (1, 2, 4):
            mo = dtlib.dt_model_opt(cu, opt)
            vo = [(e.text, e.type_name, [(v.get('timex'), v.get('value')) for v in dtlib.vals(e)]) for e in mo.parse(second, R)]
            ctx.event('option_variant_runs')
            if vo != alone[second]:
                ctx.fail('reading-depends-on-recogniser-options', dict(where, options=opt), key, dict(case, options=opt), alone[second], vo)
                break
        if again != alone[second]:
            ctx.fail('reading-depends-on-earlier-call', where, key, case, alone[second], again)
        elif usable and len(both) == 2 and first != second:
            exp = [alone[first][0], alone[second][0]]
            if [b[1:] for b in both] != [e[1:] for e in exp]:
                ctx.fail('reading-depends-on-neighbouring-date', where, key, case, exp, both)


def plan(tier, seed):
    n = 8 if tier == 'quick' else 16
    jobs = [{'name': 's%d' % i, 'shard': i, 'shards': n} for i in range(n)]
    jobs += [{'name': 'cult-' + cu, 'culture': cu} for cu in sorted(WD_CULT)]
    jobs += [{'name': 'pairs-' + cu, 'kind': 'pairs', 'culture': cu} for cu in sorted(PAIR_JOIN)]
    jobs += [{'name': 'numeric-' + cu, 'kind': 'numeric', 'culture': cu} for cu in sorted(NUM_CARRIERS)]
    return jobs


def run(job, ctx):
    if job.get('kind') == 'pairs':
        return run_pairs(job, ctx)
    if job.get('kind') == 'numeric':
        return run_numeric_culture(job, ctx)
    if 'culture' in job:
        cu = job['culture']
        m = dtlib.dt_model(cu)
        for q, R, want, timex, cls, rel in gen_culture(ctx, cu):
            check(m, q, R, want, timex, ctx, cls, rel, culture=cu)
        return
    m = dtlib.dt_model('en-us')
    for i, (q, R, want, timex, cls, rel) in enumerate(gen(ctx)):
        if i % job['shards'] == job['shard']:
            check(m, q, R, want, timex, ctx, cls, rel)


def replay_case(fail, ctx):
    c = fail['case']
    cu = fail.get('where', {}).get('culture', 'en-us')
    check(dtlib.dt_model(cu), c['query'], dt.datetime.fromisoformat(c['reference']), c['want'], c['timex'], ctx, c['cls'], c['rel'], culture=cu)
