"""C10 - durations and explicit ranges are arithmetically self-consistent.

(1) generated 'N <unit>' durations and 'from A to B' / 'between A and B' ranges with known answers;
(2) a triple-consistency monitor on every (start,end,duration) TIMEX that the date-time model emits on
    the Python-supported Specs inputs of every culture: resolved start/end equal the TIMEX endpoints and
    end - start equals the duration (days exactly; months/years by calendar count; composite PTxHyMzS
    summed; pure time ranges modulo 24 h).
"""
import datetime as dt
import re

from rtmon import dtlib

LEVEL = 'exploration'
RULE = ('durations: N in 1..59 + seeded 60..5000 + {100,1000,5000} x units second..year (singular/plural); date ranges: seeded ordered '
        'pairs of dates 1900..2099 x 3 layouts x {from..to, between..and}; time ranges: ordered pairs of HH:MM and h am/pm; triple monitor: '
        'every value whose TIMEX is (s,e,d) produced by the DateTimeModel on all Python-supported DateTime spec inputs of 9 cultures. '
        'non-trivial = a resolved entity (generated) / a triple TIMEX with definite endpoints (monitor); distinct = distinct (culture, query, reference).')
EXHAUSTIVE = False
JOB_TIMEOUT = 5400

U = {'second': ('TS', 1), 'minute': ('TM', 60), 'hour': ('TH', 3600), 'day': ('D', 86400), 'week': ('W', 604800),
     'month': ('M', 2592000), 'year': ('Y', 31536000)}
R0 = dt.datetime(2016, 11, 7, 10, 30)
D_RE = r'\d{4}-\d{2}-\d{2}'
T_RE = r'T\d{2}(?::\d{2}(?::\d{2})?)?'


def pt(t):
    p = t[1:].split(':')
    p += ['00'] * (3 - len(p))
    return ':'.join(p)


def triple_problem(v):
    """None when consistent or not a definite triple; else a mechanism string"""
    tx = v.get('timex') or ''
    m = re.fullmatch(r'\((.*),(.*),(P.*)\)', tx)
    if not m:
        return None, False
    s, e, d = m.groups()
    st, en = v.get('start'), v.get('end')
    if re.fullmatch(D_RE, s) and re.fullmatch(D_RE, e):
        if st is None or en is None:
            return None, False         # not a resolved range with both endpoints ('not resolved', or open with Mod): not judged
        if (st, en) != (s, e):
            return 'date-endpoints-differ-from-timex', True
        try:
            a = dt.date.fromisoformat(s); b = dt.date.fromisoformat(e)
        except ValueError:
            return 'date-endpoint-invalid', True
        mm = re.fullmatch(r'P(-?\d+(?:\.\d+)?)([DWMY])', d)
        if not mm:
            return None, True          # composite / other duration spelling: not judged
        n = float(mm.group(1)); u = mm.group(2)
        if u == 'D':
            return (None if n == (b - a).days else 'date-duration-days-wrong'), True
        if u == 'W':
            return (None if n * 7 == (b - a).days else 'date-duration-weeks-wrong'), True
        if u == 'M':
            if a.day != b.day:
                return None, True      # not a whole number of months: unit inexact, not judged
            return (None if n == (b.year - a.year) * 12 + b.month - a.month else 'date-duration-months-wrong'), True
        if (a.month, a.day) != (b.month, b.day):
            return None, True
        return (None if n == b.year - a.year else 'date-duration-years-wrong'), True
    if re.fullmatch(T_RE, s) and re.fullmatch(T_RE, e):
        if st is None or en is None:
            return None, True
        if (st, en) != (pt(s), pt(e)):
            return 'time-endpoints-differ-from-timex', True

        def sec(x):
            h, m_, s_ = map(int, pt(x).split(':'))
            return h * 3600 + m_ * 60 + s_
        mm = re.fullmatch(r'PT(?:(\d+)H)?(?:(\d+)M)?(?:(\d+)S)?', d)
        if not mm or d == 'PT':
            return None, True
        tot = int(mm.group(1) or 0) * 3600 + int(mm.group(2) or 0) * 60 + int(mm.group(3) or 0)
        return (None if tot % 86400 == (sec(e) - sec(s)) % 86400 else 'time-duration-wrong'), True
    m2 = re.fullmatch('(%s)(%s)' % (D_RE, T_RE), s); m3 = re.fullmatch('(%s)(%s)' % (D_RE, T_RE), e)
    if m2 and m3:
        if st is None or en is None:
            return None, True
        es = m2.group(1) + ' ' + pt(m2.group(2)); ee = m3.group(1) + ' ' + pt(m3.group(2))
        if (st, en) != (es, ee):
            return 'datetime-endpoints-differ-from-timex', True
        try:
            a = dt.datetime.fromisoformat(es); b = dt.datetime.fromisoformat(ee)
        except ValueError:
            return 'datetime-endpoint-invalid', True
        mm = re.fullmatch(r'PT(?:(\d+(?:\.\d+)?)H)?(?:(\d+(?:\.\d+)?)M)?(?:(\d+(?:\.\d+)?)S)?', d)
        if mm and d != 'PT':
            n = float(mm.group(1) or 0) * 3600 + float(mm.group(2) or 0) * 60 + float(mm.group(3) or 0)
            return (None if abs(n - (b - a).total_seconds()) < 1e-6 else 'datetime-duration-wrong'), True
        mm = re.fullmatch(r'P(\d+)D', d)
        if mm:
            return (None if int(mm.group(1)) * 86400 == (b - a).total_seconds() else 'datetime-duration-wrong'), True
        return None, True
    return None, False


def check_gen(m, q, ref, typ, pred_desc, pred, ctx, cls):
    from rtmon import lib
    where = {'model': 'DateTimeModel', 'culture': 'en-us', 'cls': cls}
    case = {'query': q, 'reference': ref.isoformat(), 'type': typ, 'want': pred_desc, 'cls': cls}
    key = 'en-us|%s' % q
    core = q.strip()
    st0 = q.index(core)
    lib.take_swallowed()
    try:
        r = m.parse(q, ref)
    except Exception as e:
        ctx.observe(key=key, cell=cls)
        ctx.fail('exception', where, key, case, pred_desc, repr(e))
        return
    obs = dtlib.view(r)
    ctx.event('boundary_calls')
    ctx.observe(key=key, nontrivial=len(r) == 1 and r[0].resolution is not None, cell=cls, sample={'query': q, 'observed': obs})
    mech = None
    if not r:
        mech = 'missed'
    elif len(r) > 1:
        mech = 'split'
    else:
        e = r[0]
        vs = dtlib.vals(e)
        if e.resolution is None or not vs:
            mech = 'unresolved'
        elif (e.start, e.end) != (st0, st0 + len(core) - 1):
            mech = 'wrong-span'
        elif e.type_name != 'datetimeV2.' + typ:
            mech = 'wrong-type'
        else:
            mech = pred(vs)
    if mech:
        ctx.fail('%s:%s' % (mech, cls.split('|')[0]), where, key, case, pred_desc, {'entities': obs, 'swallowed': lib.take_swallowed()})
    # every generated range also passes through the triple monitor
    for e in r:
        for v in dtlib.vals(e):
            prob, is_triple = triple_problem(v)
            if is_triple:
                ctx.event('triple_timex_checked')
            if prob:
                ctx.fail('triple:' + prob, where, key, case, 'consistent (start,end,duration)', v)


def run_gen(job, ctx):
    m = dtlib.dt_model('en-us')
    r = ctx.rng('c10:' + job['part'])
    part = job['part']
    if part == 'duration':
        ns = list(range(1, 60)) + [r.randrange(60, 5001) for _ in range(40 if ctx.tier == 'quick' else 1200)] + [100, 1000, 5000]
        for N, form in [(N, f) for N in ns for f in spellings(N, 'en-us')]:
            for u, (code, sec) in U.items():
                q = '%s %s%s' % (form, u, 's' if N != 1 else '')
                tx = 'P' + ('T' if code[0] == 'T' else '') + str(N) + code[-1]
                want = {'timex': tx, 'value': str(N * sec)}

                def pred(vs, want=want):
                    if len(vs) != 1:
                        return 'wrong-number-of-values'
                    if vs[0].get('timex') != want['timex']:
                        return 'wrong-duration-timex'
                    if vs[0].get('value') != want['value']:
                        return 'wrong-duration-seconds'
                check_gen(m, q, R0, 'duration', want, pred, ctx, 'duration|' + u)
    elif part == 'daterange':
        n = 120 if ctx.tier == 'quick' else 3000
        lay = [('iso', dtlib.EN_LAYOUTS['iso']), ('m/d/yyyy', dtlib.EN_LAYOUTS['m/d/yyyy']), ('Month d, yyyy', dtlib.EN_LAYOUTS['Month d, yyyy'])]
        for _ in range(n):
            a = dtlib.rand_date(r)
            b = a + dt.timedelta(days=r.choice([1, 2, 7, 28, 29, 30, 31, 365, 366, r.randrange(1, 4000)]))
            if b.year > 2099:
                continue
            for name, f in lay:
                for tmpl in ('from {} to {}', 'between {} and {}'):
                    q = tmpl.format(f(a), f(b))
                    want = {'start': a.isoformat(), 'end': b.isoformat(), 'timex': '(%s,%s,P%dD)' % (a.isoformat(), b.isoformat(), (b - a).days)}

                    def pred(vs, want=want):
                        if len(vs) != 1:
                            return 'wrong-number-of-values'
                        if (vs[0].get('start'), vs[0].get('end')) != (want['start'], want['end']):
                            return 'wrong-range-endpoints'
                        if vs[0].get('timex') != want['timex']:
                            return 'wrong-range-timex'
                    check_gen(m, q, dtlib.rand_ref(r), 'daterange', want, pred, ctx, 'daterange|%s|%s' % (name, tmpl.split()[0]))
                    if name == 'iso':
                        check_gen(m, '   ' + q + '  ', dtlib.rand_ref(r), 'daterange', want, pred, ctx, 'daterange|%s|%s|blanks' % (name, tmpl.split()[0]))
    elif part == 'timerange':
        n = 150 if ctx.tier == 'quick' else 3000
        for _ in range(n):
            h1 = r.randrange(0, 23); h2 = r.randrange(h1 + 1, 24); m1 = r.randrange(60); m2 = r.randrange(60)
            for tmpl in ('from {} to {}', 'between {} and {}'):
                q = tmpl.format('%02d:%02d' % (h1, m1), '%02d:%02d' % (h2, m2))
                want = {'start': '%02d:%02d:00' % (h1, m1), 'end': '%02d:%02d:00' % (h2, m2)}

                def pred(vs, want=want):
                    if not any(v.get('start') == want['start'] and v.get('end') == want['end'] for v in vs):
                        return 'wrong-range-endpoints'
                check_gen(m, q, dtlib.rand_ref(r), 'timerange', want, pred, ctx, 'timerange|HH:MM|' + tmpl.split()[0])
            q = 'from %d%s to %d%s' % (h1 % 12 or 12, 'am' if h1 < 12 else 'pm', h2 % 12 or 12, 'am' if h2 < 12 else 'pm')
            want = {'start': '%02d:00:00' % h1, 'end': '%02d:00:00' % h2, 'timex': '(T%02d,T%02d,PT%dH)' % (h1, h2, h2 - h1)}

            def pred(vs, want=want):
                if len(vs) != 1:
                    return 'wrong-number-of-values'
                if (vs[0].get('start'), vs[0].get('end')) != (want['start'], want['end']):
                    return 'wrong-range-endpoints'
                if vs[0].get('timex') != want['timex']:
                    return 'wrong-range-timex'
            check_gen(m, q, dtlib.rand_ref(r), 'timerange', want, pred, ctx, 'timerange|ampm')
            check_gen(m, '  ' + q, dtlib.rand_ref(r), 'timerange', want, pred, ctx, 'timerange|ampm|blanks')


# unit words of the other cultures (singular, plural, code, seconds); hour words that double as "o'clock" (fr heure, nl uur,
# pt hora) and zh 年 (N年 is also the year N) are genuinely ambiguous in the language and are left out
CULT_UNITS = {
    'es-es': [('segundo', 'segundos', 'TS', 1), ('minuto', 'minutos', 'TM', 60), ('hora', 'horas', 'TH', 3600), ('día', 'días', 'D', 86400), ('semana', 'semanas', 'W', 604800), ('mes', 'meses', 'M', 2592000), ('año', 'años', 'Y', 31536000)],
    'fr-fr': [('seconde', 'secondes', 'TS', 1), ('minute', 'minutes', 'TM', 60), ('jour', 'jours', 'D', 86400), ('semaine', 'semaines', 'W', 604800), ('mois', 'mois', 'M', 2592000), ('an', 'ans', 'Y', 31536000)],
    'de-de': [('Sekunde', 'Sekunden', 'TS', 1), ('Minute', 'Minuten', 'TM', 60), ('Stunde', 'Stunden', 'TH', 3600), ('Tag', 'Tage', 'D', 86400), ('Woche', 'Wochen', 'W', 604800), ('Monat', 'Monate', 'M', 2592000), ('Jahr', 'Jahre', 'Y', 31536000)],
    'it-it': [('secondo', 'secondi', 'TS', 1), ('minuto', 'minuti', 'TM', 60), ('ora', 'ore', 'TH', 3600), ('giorno', 'giorni', 'D', 86400), ('settimana', 'settimane', 'W', 604800), ('mese', 'mesi', 'M', 2592000), ('anno', 'anni', 'Y', 31536000)],
    'nl-nl': [('seconde', 'seconden', 'TS', 1), ('minuut', 'minuten', 'TM', 60), ('dag', 'dagen', 'D', 86400), ('week', 'weken', 'W', 604800), ('maand', 'maanden', 'M', 2592000), ('jaar', 'jaar', 'Y', 31536000)],
    'pt-br': [('segundo', 'segundos', 'TS', 1), ('minuto', 'minutos', 'TM', 60), ('dia', 'dias', 'D', 86400), ('semana', 'semanas', 'W', 604800), ('mês', 'meses', 'M', 2592000), ('ano', 'anos', 'Y', 31536000)],
    'zh-cn': [('秒', '秒', 'TS', 1), ('分钟', '分钟', 'TM', 60), ('小时', '小时', 'TH', 3600), ('天', '天', 'D', 86400), ('周', '周', 'W', 604800), ('个月', '个月', 'M', 2592000)],
}
CULT_UNITS['es-mx'] = CULT_UNITS['es-es']


GROUP_MARK = {'es-es': '.', 'de-de': '.', 'it-it': '.', 'nl-nl': '.', 'pt-br': '.', 'fr-fr': '.', 'zh-cn': ',', 'en-us': ','}


def spellings(N, cu):
    """the ways N is written with digits in the culture: plain, and from 1000 on with the culture's grouping mark"""
    out = [str(N)]
    if N >= 1000 and cu in GROUP_MARK:
        out.append('{:,}'.format(N).replace(',', GROUP_MARK[cu]))
    return out


def run_durations_cultures(job, ctx):
    from rtmon import lib
    cu = job['culture']
    m = dtlib.dt_model(cu)
    r = ctx.rng('c10:dur:' + cu)
    ns = [1, 2, 3, 7, 15, 30, 59, 100, 365, 1000, 4999] + [r.randrange(2, 5001) for _ in range(8 if ctx.tier == 'quick' else 200)]
    for sg, pl, code, sec in CULT_UNITS[cu]:
      for N in ns:
        for form in spellings(N, cu):
            q = ('%s%s' % (form, pl)) if cu == 'zh-cn' else '%s %s' % (form, sg if N == 1 else pl)
            tx = 'P' + ('T' if code[0] == 'T' else '') + str(N) + code[-1]
            want = {'timex': tx, 'value': str(N * sec)}
            where = {'model': 'DateTimeModel', 'culture': cu, 'cls': 'duration|' + sg, 'digits': '>=3' if N >= 100 else '<3'}
            key = '%s|%s' % (cu, q)
            try:
                res = m.parse(q, R0)
            except Exception as e:
                ctx.observe(key=key, cell=cu + ':duration')
                ctx.fail('exception', where, key, {'culture': cu, 'query': q, 'reference': R0.isoformat()}, want, repr(e))
                continue
            obs = dtlib.view(res)
            ctx.event('boundary_calls')
            ctx.observe(key=key, nontrivial=len(res) == 1 and res[0].resolution is not None, cell=cu + ':duration', sample={'culture': cu, 'query': q, 'observed': obs})
            mech = None
            if not res:
                mech = 'missed'
            elif len(res) > 1:
                mech = 'split'
            else:
                e = res[0]
                vs = dtlib.vals(e)
                if e.resolution is None or not vs:
                    mech = 'unresolved'
                elif (e.start, e.end) != (0, len(q) - 1):
                    mech = 'wrong-span'
                elif e.type_name != 'datetimeV2.duration':
                    mech = 'duration-read-as-' + e.type_name.split('.')[-1]
                elif len(vs) != 1 or vs[0].get('timex') != tx:
                    mech = 'wrong-duration-timex'
                elif vs[0].get('value') != want['value']:
                    mech = 'wrong-duration-seconds'
            if mech:
                ctx.fail('%s:duration' % mech, where, key, {'culture': cu, 'query': q, 'reference': R0.isoformat(), 'want': want, 'cls': 'duration|' + sg}, want, {'entities': obs})


TIME_RANGE_TEMPLATES = {
    'fr-fr': ['de {a} à {b}', 'entre {a} et {b}'], 'pt-br': ['entre {a} e {b}', 'das {a} às {b}'], 'it-it': ['tra le {a} e le {b}', 'dalle {a} alle {b}'],
    'es-es': ['entre las {a} y las {b}', 'de {a} a {b}'], 'nl-nl': ['tussen {a} en {b}', 'van {a} tot {b}'],
    'en-us': ['between {a} and {b}', 'from {a} to {b}', 'between noon and {b12}', 'from {a12} to noon', 'from {a12} to midnight'],
}
EXACT_ENDPOINTS = ('es-es', 'nl-nl', 'en-us')     # cultures whose reading of two HH:MM endpoints is the endpoints as written


def run_timeranges_cultures(job, ctx):
    """clock-time ranges in six cultures over all minute spans: judged by the triple monitor (start/end/duration agree);
    where the culture reads HH:MM endpoints literally also by the endpoints"""
    cu = job['culture']
    m = dtlib.dt_model(cu)
    r = ctx.rng('c10:tr:' + cu)
    spans = [(h1, m1, h2, m2) for h1 in range(0, 23) for m1 in (0, 7, 10, 57) for h2 in range(h1 + 1, 24) for m2 in (0, 5, 12, 16, 25, 29)]
    if ctx.tier == 'quick':
        spans = r.sample(spans, 260)
    extra = 200 if ctx.tier == 'quick' else 4000
    for _ in range(extra):
        h1 = r.randrange(0, 23)
        spans.append((h1, r.randrange(60), r.randrange(h1 + 1, 24), r.randrange(60)))

    def h12(h, mi):
        return '%d:%02d%s' % (h % 12 or 12, mi, 'am' if h < 12 else 'pm')
    for h1, m1, h2, m2 in spans:
        a, b = '%02d:%02d' % (h1, m1), '%02d:%02d' % (h2, m2)
        if cu == 'fr-fr' and r.random() < 0.5:
            a, b = '%dh%02d' % (h1, m1), '%dh%02d' % (h2, m2)
        for t in TIME_RANGE_TEMPLATES[cu]:
            if '{a12}' in t and not (h1 < 12):
                continue
            if '{b12}' in t and not (h2 > 12):
                continue
            q = t.format(a=a, b=b, a12=h12(h1, m1), b12=h12(h2, m2))
            where = {'model': 'DateTimeModel', 'culture': cu, 'cls': 'timerange|' + t}
            key = '%s|%s' % (cu, q)
            case = {'culture': cu, 'query': q, 'reference': R0.isoformat(), 'cls': 'timerange|' + t}
            try:
                res = m.parse(q, R0)
            except Exception as e:
                ctx.observe(key=key, cell=cu + ':timerange')
                ctx.fail('exception', where, key, case, None, repr(e))
                continue
            ctx.event('boundary_calls')
            ntr = 0
            for e in res:
                for v in dtlib.vals(e):
                    prob, is_triple = triple_problem(v)
                    if is_triple:
                        ntr += 1
                        ctx.event('triple_timex_checked')
                    if prob:
                        ctx.fail('triple:' + prob, where, key, case, 'consistent (start,end,duration)', v)
            ctx.observe(key=key, nontrivial=ntr > 0, cell=cu + ':timerange', sample={'culture': cu, 'query': q, 'observed': dtlib.view(res)} if ntr else None)
            if cu in EXACT_ENDPOINTS and '{a}' in t and '{b}' in t:
                want = {'start': '%02d:%02d:00' % (h1, m1), 'end': '%02d:%02d:00' % (h2, m2)}
                ok = len(res) == 1 and res[0].type_name == 'datetimeV2.timerange' and any(v.get('start') == want['start'] and v.get('end') == want['end'] for v in dtlib.vals(res[0]))
                if not ok:
                    ctx.fail('wrong-range-endpoints:timerange', where, key, dict(case, want=want), want, {'entities': dtlib.view(res)})


# 'from A to B' / 'between A and B' with two absolute dates in the other cultures; only connectives each culture merges into one range at all
# (es 'desde..hasta', pt 'entre..e', it 'tra..e', de 'zwischen..und' are not: the statement is worded for the English connectives)
DATE_RANGE_TEMPLATES = {
    'es-es': ['del {a} al {b}', 'entre el {a} y el {b}', 'de {a} a {b}', 'entre {a} y {b}'],
    'fr-fr': ['du {a} au {b}', 'entre le {a} et le {b}', 'de {a} à {b}', 'entre {a} et {b}'],
    'pt-br': ['de {a} a {b}', 'de {a} até {b}'],
    'it-it': ['dal {a} al {b}', 'da {a} a {b}'],
    'de-de': ['vom {a} bis zum {b}', 'von {a} bis {b}'],
    'nl-nl': ['van {a} tot {b}', 'tussen {a} en {b}', 'van {a} tot en met {b}', 'vanaf {a} tot {b}'],
    'zh-cn': ['从{a}到{b}', '{a}到{b}', '{a}至{b}', '从{a}至{b}'],
}
DATE_RANGE_LAYOUTS = ('iso', 'd/m/yyyy', 'dd/mm/yyyy', 'month-name', 'd.m.yyyy', 'dd.mm.yyyy', 'd-m-yyyy', 'yyyy/m/d', 'yyyy-m-d', 'yyyy年m月d日')


def run_dateranges_cultures(job, ctx):
    """two absolute dates joined by the culture's from-to / between-and connectives: one daterange entity covering both dates,
    one value whose start/end are the dates written and whose TIMEX is (start,end,PnD)"""
    from rtmon import lib
    cu = job['culture']
    m = dtlib.dt_model(cu)
    r = ctx.rng('c10:dr:' + cu)
    lay = {k: f for k, f in dtlib.layouts(cu).items() if k in DATE_RANGE_LAYOUTS and not (cu == 'pt-br' and k == 'd-m-yyyy')}
    n = 40 if ctx.tier == 'quick' else 1200
    for _ in range(n):
        a = dtlib.rand_date(r)
        b = a + dt.timedelta(days=r.choice([1, 2, 7, 28, 29, 30, 31, 365, 366, r.randrange(1, 4000)]))
        if b.year > 2099:
            continue
        for name, f in lay.items():
            for t in DATE_RANGE_TEMPLATES[cu]:
                sa, sb = f(a), f(b)
                q = t.format(a=sa, b=sb)
                if r.random() < 0.2:
                    q = '  ' + q
                a0 = q.index(sa)
                b1 = q.rindex(sb) + len(sb) - 1
                ref = dtlib.rand_ref(r)
                want = {'start': a.isoformat(), 'end': b.isoformat(), 'timex': '(%s,%s,P%dD)' % (a.isoformat(), b.isoformat(), (b - a).days)}
                cls = 'daterange|%s|%s' % (name, t)
                where = {'model': 'DateTimeModel', 'culture': cu, 'cls': cls}
                key = '%s|%s' % (cu, q)
                case = {'culture': cu, 'query': q, 'reference': ref.isoformat(), 'cls': cls, 'want': want, 'cover': [a0, b1]}
                lib.take_swallowed()
                try:
                    res = m.parse(q, ref)
                except Exception as e:
                    ctx.observe(key=key, cell=cu + ':daterange')
                    ctx.fail('exception', where, key, case, want, repr(e))
                    continue
                ctx.event('boundary_calls')
                mech = daterange_problem(res, want, a0, b1, len(q))
                ctx.observe(key=key, nontrivial=len(res) == 1 and res[0].resolution is not None, cell=cu + ':daterange',
                            sample={'culture': cu, 'query': q, 'observed': dtlib.view(res)})
                if mech:
                    ctx.fail(mech + ':daterange', where, key, case, want, {'entities': dtlib.view(res), 'swallowed': lib.take_swallowed()})
                for e in res:
                    for v in dtlib.vals(e):
                        prob, is_triple = triple_problem(v)
                        if is_triple:
                            ctx.event('triple_timex_checked')
                        if prob:
                            ctx.fail('triple:' + prob, where, key, case, 'consistent (start,end,duration)', v)


def daterange_problem(res, want, a0, b1, n):
    if not res:
        return 'missed'
    if len(res) > 1:
        return 'split'
    e = res[0]
    vs = dtlib.vals(e)
    if e.resolution is None or not vs:
        return 'unresolved'
    if not (0 <= e.start <= a0 and b1 <= e.end < n):
        return 'wrong-span'
    if e.type_name != 'datetimeV2.daterange':
        return 'wrong-type'
    if len(vs) != 1:
        return 'wrong-number-of-values'
    if (vs[0].get('start'), vs[0].get('end')) != (want['start'], want['end']):
        return 'wrong-range-endpoints'
    if vs[0].get('timex') != want['timex']:
        return 'wrong-range-timex'
    return None


def run_triple(job, ctx):
    from rtmon import lib
    cu = job['culture']
    m = dtlib.dt_model(cu)
    inputs = lib.corpus_inputs(cu, supported_only=True, recogniser='DateTime')
    where = {'model': 'DateTimeModel', 'culture': cu, 'cls': 'corpus-triple'}
    for i, (q, ref) in enumerate(inputs):
        if i % job['shards'] != job['shard']:
            continue
        R = lib.parse_ref(ref or '2016-11-07T00:00:00')
        try:
            r = m.parse(q, R)
        except Exception:
            continue
        ctx.event('boundary_calls')
        n_tr = 0
        for e in r:
            for v in dtlib.vals(e):
                prob, is_triple = triple_problem(v)
                if is_triple:
                    n_tr += 1
                    ctx.event('triple_timex_checked')
                if prob:
                    ctx.fail('triple:' + prob, where, '%s|%s|%s' % (cu, q, ref or ''), {'culture': cu, 'query': q, 'reference': R.isoformat(), 'cls': 'corpus-triple'},
                             'consistent (start,end,duration)', v)
        ctx.observe(key='%s|%s|%s' % (cu, q, ref), nontrivial=n_tr > 0, cell='triple:' + cu,
                    sample=({'culture': cu, 'query': q, 'observed': dtlib.view(r)} if n_tr else None))


def plan(tier, seed):
    jobs = [{'name': p, 'kind': 'gen', 'part': p} for p in ('duration', 'daterange', 'timerange')]
    jobs += [{'name': 'dur-' + cu, 'kind': 'durcult', 'culture': cu} for cu in sorted(CULT_UNITS)]
    jobs += [{'name': 'tr-' + cu, 'kind': 'trcult', 'culture': cu} for cu in sorted(TIME_RANGE_TEMPLATES)]
    jobs += [{'name': 'dr-' + cu, 'kind': 'drcult', 'culture': cu} for cu in sorted(DATE_RANGE_TEMPLATES)]
    for cu in dtlib.DT_CULTURES:
        sh = 4 if cu == 'en-us' else 1
        if tier == 'thorough' and cu == 'en-us':
            sh = 6
        for s in range(sh):
            jobs.append({'name': 'triple-%s-%d' % (cu, s), 'kind': 'triple', 'culture': cu, 'shard': s, 'shards': sh, 'weight': 2})
    return jobs


def run(job, ctx):
    {'gen': run_gen, 'triple': run_triple, 'durcult': run_durations_cultures, 'trcult': run_timeranges_cultures, 'drcult': run_dateranges_cultures}[job['kind']](job, ctx)


def replay_case(fail, ctx):
    c = fail['case']
    cu = c.get('culture', 'en-us')
    m = dtlib.dt_model(cu)
    R = dt.datetime.fromisoformat(c['reference'])
    r = m.parse(c['query'], R)
    ctx.observe(key=c['query'])
    print('entities now:', dtlib.view(r))
    for e in r:
        for v in dtlib.vals(e):
            prob, _ = triple_problem(v)
            if prob:
                ctx.fail('triple:' + prob, fail.get('where', {}), fail.get('key'), c, None, v)
    if c.get('want') and not fail['mech'].startswith('triple:'):
        w = c['want']
        vs = [v for e in r for v in dtlib.vals(e)]
        if not any(all(v.get(k) == x for k, x in w.items()) for v in vs):
            ctx.fail(fail['mech'], fail.get('where', {}), fail.get('key'), c, w, dtlib.view(r))
