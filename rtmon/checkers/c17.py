"""C17 - culture routing and model caching never serve the wrong model.

Cache/factory monitor: Recognizer.register_model is wrapped (class level, before any recogniser exists) so that every
constructor it registers tags the model it builds with its provenance (recogniser, model type, culture it was
registered under, options it was built with).  Random request histories over all five recognisers, all getters,
hostile culture strings, fallback flag, option values and new/reused recogniser instances are executed; for every
request the observed outcome (object identity + provenance tag, or the exception) is compared with a routing
specification written from the property statement, and with every earlier answer for the same key.
"""
import collections

LEVEL = 'exploration'
RULE = ('request histories of 400 (quick) / 4000 (thorough) steps per worker over {Number, NumberWithUnit, DateTime, Sequence, Choice} recognisers x '
        'their getters (and the generic get_model) x culture strings {supported codes in random letter case, region variants of every language '
        '(real and synthetic, well-formed BCP-47), unknown languages, "", None, white-space padded} x fallback {True, False} x options (DateTime: 0..4; '
        'out-of-range values must raise ValueError) x {new recogniser per request, long-lived recogniser, recogniser with a target culture}. '
        'non-trivial = a request that returned a model; distinct = distinct (recogniser, getter, culture string, fallback, options).')
EXHAUSTIVE = False
JOB_TIMEOUT = 5400

GETTERS = {
    'NumberRecognizer': [('get_number_model', 'NumberModel'), ('get_ordinal_model', 'OrdinalModel'), ('get_percentage_model', 'PercentModel')],
    'NumberWithUnitRecognizer': [('get_currency_model', 'CurrencyModel'), ('get_dimension_model', 'DimensionModel'), ('get_temperature_model', 'TemperatureModel'), ('get_age_model', 'AgeModel')],
    'DateTimeRecognizer': [('get_datetime_model', 'DateTimeModel')],
    'SequenceRecognizer': [('get_phone_number_model', 'PhoneNumberModel'), ('get_ip_address_model', 'IpAddressModel'), ('get_email_model', 'EmailModel'), ('get_url_model', 'URLModel'),
                           ('get_mention_model', 'MentionModel'), ('get_hashtag_model', 'HashtagModel'), ('get_guid_model', 'GUIDModel')],
    'ChoiceRecognizer': [('get_boolean_model', 'BooleanModel')],
}
# one word per culture that only that language's number model reads as 2
PROBE = {'en-us': 'two', 'es-es': 'dos', 'es-mx': 'dos', 'fr-fr': 'deux', 'pt-br': 'dois', 'de-de': 'zwei', 'it-it': 'due', 'nl-nl': 'twee', 'zh-cn': '二', 'ja-jp': '二'}


def rec_classes():
    from recognizers_number import NumberRecognizer
    from recognizers_number_with_unit import NumberWithUnitRecognizer
    from recognizers_sequence import SequenceRecognizer
    from recognizers_choice.choice.recognizers_choice import ChoiceRecognizer
    from recognizers_date_time import DateTimeRecognizer
    return {c.__name__: c for c in (NumberRecognizer, NumberWithUnitRecognizer, DateTimeRecognizer, SequenceRecognizer, ChoiceRecognizer)}


def install_monitor():
    from recognizers_text.recognizer import Recognizer
    orig = Recognizer.register_model
    if getattr(orig, '_rt', False):
        return

    def register_model(self, model_type_name, culture, model_ctor):
        rname = type(self).__name__

        def tagged(options):
            m = model_ctor(options)
            try:
                m._rt_prov = (rname, model_type_name, culture)
                m._rt_opts = int(options) if options is not None else None
            except Exception:
                pass
            BUILT[(rname, model_type_name, culture)] += 1
            return m
        return orig(self, model_type_name, culture, tagged)
    register_model._rt = True
    Recognizer.register_model = register_model


BUILT = collections.Counter()


def supported():
    from recognizers_text import Culture
    return Culture._get_supported_culture_codes()


def spec_culture(code):
    """the property's routing rule for a culture string (None/'' -> None)"""
    if not code:
        return None
    c = code.lower()
    sup = supported()
    if c in sup:
        return c
    lang = c.split('-')[0].strip()
    same = [s for s in sup if s.split('-')[0] == lang]
    if len(same) == 1:
        return same[0]
    if len(same) > 1:
        star = [s for s in same if '*' in s]      # the library's own tie-break for English: the en-* entry
        if star:
            return star[-1]
    return c


def culture_strings(r):
    sup = supported()
    out = []
    for s in sup:
        out += [s, s.upper(), s.title(), ''.join(ch.upper() if r.random() < 0.5 else ch for ch in s)]
    for lang in sorted({s.split('-')[0] for s in sup}):
        out += ['%s-%s' % (lang, reg) for reg in ('xx', 'ZZ', 'qq', '001', 'latn-xx')]
    out += ['en-gb', 'en-au', 'en-IN', 'es-ar', 'es-419', 'fr-ca', 'FR-CH', 'pt-pt', 'de-at', 'de-CH', 'it-ch', 'nl-be', 'zh-tw', 'zh-HK', 'zh-hans-cn', 'ja-jp', 'ja-xx', 'ko-kp', 'tr-cy']
    out += ['xx-yy', 'ru-ru', 'sv-se', 'ar-sa', 'hi-in', 'pl-pl', 'english', 'fra', 'deu', 'zho', 'eng-us', 'esp-es', 'klingon', 'tlh', 'qaa-qm']
    out += [x.upper() for x in out[-34:]] + [x.title() for x in out[-34:]]
    out += ['JA-JP', 'Ja-Jp', 'ja-JP', 'JA-jp', 'ZH-TW', 'zh-Hans-CN', 'Zh-tw']
    out += ['', None, None, ' en-us', 'en-us ', 'en_us', 'en', 'es', 'zh', 'de', 'fr']
    # not well-formed language tags (one-letter primary subtag): probed explicitly, see the known finding
    out += ['i-klingon', 'z', 'x-private', 'i', 'n-nl', 'z-cn', 'j', 'e', 'f-fr']
    return out


def one_letter_prefix(code, prov):
    """shape of the known finding: the primary subtag is ONE letter and the served culture merely starts with it"""
    if not code or not prov:
        return False
    lang = code.lower().split('-')[0].strip()
    return len(lang) == 1 and prov[2].startswith(lang)


def expected(rname, mt, code, fallback, target, registered):
    """('model', culture) | ('ValueError',)"""
    if code is None:
        code = target
    if rname == 'SequenceRecognizer' and mt in ('PhoneNumberModel', 'IpAddressModel', 'URLModel') and code and code.lower().startswith('zh-'):
        cu = 'zh-cn'
    else:
        cu = spec_culture(code)
    if (mt, cu) in registered:
        return ('model', cu)
    if fallback and (mt, 'en-us') in registered:
        return ('model', 'en-us')
    return ('ValueError',)


def run(job, ctx):
    if job.get('kind') == 'casesweep':
        return run_casesweep(job, ctx)
    install_monitor()
    from recognizers_text import ModelFactory
    from recognizers_date_time import DateTimeOptions
    from rtmon import lib
    R = rec_classes()
    r = ctx.rng('history:%d' % job['shard'])
    cults = culture_strings(r)
    long_lived = {}
    seen = {}            # (rname, mt, resolved culture, options) -> id(model)
    by_id = {}
    by_lower = {}        # (recogniser, getter, type, culture string lower-cased, fallback, target) -> (answer, culture string as first written)
    steps = job['steps']
    for step in range(steps):
        rname = r.choice(sorted(R))
        getter, mt = r.choice(GETTERS[rname])
        code = r.choice(cults)
        fb = r.random() < 0.5
        opt = 0
        if rname == 'DateTimeRecognizer':
            opt = r.choice([0, 0, 1, 2, 3, 4, 4, r.choice([5, 8, 16, -1, 999])])
        elif r.random() < 0.03:
            opt = r.choice([1, -1, 7])
        mode = r.choice(['new', 'long', 'target'])
        target = r.choice(['en-us', 'fr-fr', 'zh-cn', 'xx-yy', 'es-MX']) if mode == 'target' else None
        generic = r.random() < 0.25
        case = {'recognizer': rname, 'getter': 'get_model' if generic else getter, 'model_type': mt, 'culture': code, 'fallback': fb, 'options': opt, 'mode': mode,
                'target': target, 'step': step}
        key = '%s|%s|%r|%s|%s|%s|%s' % (rname, case['getter'], code, fb, opt, mode, target)
        where = {'model': mt, 'recognizer': rname}
        # recogniser construction (option range validation)
        valid_opt = (0 <= opt <= 4) if rname == 'DateTimeRecognizer' else opt == 0
        try:
            if mode == 'long' and (rname, opt) in long_lived:
                rec = long_lived[(rname, opt)]
            else:
                optobj = DateTimeOptions(opt) if (rname == 'DateTimeRecognizer' and valid_opt) else opt
                rec = R[rname](target, optobj, False)
                if mode == 'long':
                    long_lived[(rname, opt)] = rec
            built = True
        except ValueError:
            built = False
        except Exception as e:
            ctx.observe(key=key, nontrivial=False, cell=rname + ':construct')
            ctx.fail('constructor-raised-' + type(e).__name__, where, key, case, 'ValueError or a recogniser', repr(e))
            continue
        ctx.event('cache_requests')
        if not valid_opt:
            ctx.observe(key=key, nontrivial=False, cell=rname + ':invalid-options')
            if built:
                ctx.fail('out-of-range-options-accepted', where, key, case, 'ValueError', 'recogniser constructed')
            continue
        if not built:
            ctx.observe(key=key, nontrivial=False, cell=rname + ':construct')
            ctx.fail('valid-options-rejected', where, key, case, 'a recogniser', 'ValueError')
            continue
        registered = {(k.model_type, k.culture) for k in rec.model_factory.model_factories}
        exp = expected(rname, mt, code, fb, rec.target_culture, registered)
        try:
            m = rec.get_model(mt, code, fb) if generic else getattr(rec, getter)(code, fb)
            out = ('model',)
        except ValueError:
            m, out = None, ('ValueError',)
        except Exception as e:
            m, out = None, ('EXC', repr(e))
        prov = getattr(m, '_rt_prov', None) if m is not None else None
        popts = getattr(m, '_rt_opts', None) if m is not None else None
        obs = {'outcome': out[0], 'provenance': prov, 'built_with_options': popts}
        # letter case never matters: two requests that differ only in the case of the culture string get the same answer
        if code and out[0] != 'EXC':
            lk = (rname, case['getter'], mt, code.lower(), fb, rec.target_culture)
            ans = (out[0], prov[2] if prov else None)
            ctx.event('letter_case_pairs_compared', int(lk in by_lower and by_lower[lk][1] != code))
            if lk in by_lower and by_lower[lk][0] != ans:
                ctx.fail('routing-depends-on-letter-case', where, key, case, {'as': by_lower[lk][1], 'answer': list(by_lower[lk][0])}, obs)
            by_lower.setdefault(lk, (ans, code))
        ctx.observe(key=key, nontrivial=m is not None, cell='%s:%s' % (rname, mt), sample={'request': case, 'observed': obs, 'expected': exp})
        # the ja-* route of the sequence recogniser (known finding) is classified from the observed provenance
        if out[0] == 'EXC':
            ctx.fail('request-raised-other-exception', where, key, case, exp, out[1])
            continue
        if exp[0] == 'ValueError':
            if out[0] != 'ValueError':
                mech = 'model-served-where-ValueError-expected'
                if one_letter_prefix(code, prov):
                    mech = 'one-letter-prefix-routed-by-startswith'
                if rname == 'SequenceRecognizer' and str(code).lower().startswith('ja-') and prov and prov[2] == 'zh-cn':
                    mech = 'sequence-ja-routed-to-chinese'
                ctx.fail(mech, where, key, case, exp, obs)
            continue
        if out[0] == 'ValueError':
            ctx.fail('ValueError-where-model-expected', where, key, case, exp, obs)
            continue
        if prov is None:
            ctx.fail('model-without-provenance', where, key, case, exp, obs)
            continue
        if prov != (rname, mt, exp[1]):
            mech = 'wrong-model-served'
            if one_letter_prefix(code, prov):
                mech = 'one-letter-prefix-routed-by-startswith'
            elif rname == 'SequenceRecognizer' and str(code).lower().startswith('ja-') and prov[2] == 'zh-cn':
                mech = 'sequence-ja-routed-to-chinese'
            elif mech == 'wrong-model-served' and prov[1] == mt and prov[0] == rname:
                mech = 'wrong-culture-served'
            ctx.fail(mech, where, key, case, exp, obs)
            continue
        if popts != opt:
            ctx.fail('model-built-with-other-options', where, key, case, {'options': opt}, obs)
            continue
        ck = (rname, mt, exp[1], opt)
        if ck in seen and seen[ck] != id(m):
            ctx.fail('same-key-different-object', where, key, case, 'the cached model', obs)
        seen.setdefault(ck, id(m))
        if id(m) in by_id and by_id[id(m)] != ck:
            ctx.fail('one-object-for-two-keys', where, key, case, str(by_id[id(m)]), str(ck))
        by_id.setdefault(id(m), ck)
        # behaviour: the number model of a culture reads its own word for 2
        if mt == 'NumberModel' and exp[1] in PROBE and step % 5 == 0:
            res = m.parse(PROBE[exp[1]])
            ok = len(res) == 1 and res[0] is not None and res[0].resolution.get('value') == '2'
            ctx.event('behaviour_probes')
            if not ok:
                ctx.fail('model-does-not-speak-its-language', where, key, case, {'probe': PROBE[exp[1]], 'value': '2'}, [lib.ent(e) for e in res])
    ctx.extra['models_built'] = {'%s|%s|%s' % k: v for k, v in BUILT.items()}
    cache = ModelFactory._ModelFactory__cache
    ctx.event('cache_entries_at_end', len(cache))
    # structural invariant of the live cache at the quiescent point: every entry's provenance equals its key
    for k, v in list(cache.items()):
        prov = getattr(v, '_rt_prov', None)
        if prov is None:
            continue
        if (prov[1], prov[2]) != (k.model_type, k.culture) or getattr(v, '_rt_opts', None) != int(k.options):
            ctx.fail('cache-entry-under-wrong-key', {'model': k.model_type}, 'cache|%s|%s|%s' % (k.model_type, k.culture, int(k.options)),
                     {'key': [k.model_type, k.culture, int(k.options)]}, 'provenance == key', {'provenance': prov, 'options': getattr(v, '_rt_opts', None)})


UNIT_PROBE = {'en-us': ('2.5 kg', '2.5'), 'es-es': ('2,5 kg', '2,5'), 'es-mx': ('2.5 kg', '2.5'), 'fr-fr': ('2,5 kg', '2,5'), 'pt-br': ('2,5 kg', '2,5'), 'de-de': ('2,5 kg', '2,5'),
              'it-it': ('2,5 kg', '2,5'), 'nl-nl': ('2,5 kg', '2,5')}


def variants(code):
    alt = ''.join(ch.upper() if i % 2 == 0 else ch for i, ch in enumerate(code))
    return [code, code.upper(), code.title(), alt, code[:2].upper() + code[2:], code[:3] + code[3:].upper()]


def run_casesweep(job, ctx):
    """every getter of every recogniser x every culture family x fallback on/off, asked in six letter cases: one answer"""
    install_monitor()
    R = rec_classes()
    fams = sorted(set(supported()) | {'ja-jp', 'ja-xx', 'zh-tw', 'zh-hk', 'en-gb', 'es-ar', 'fr-ca', 'pt-pt', 'de-at', 'nl-be', 'it-ch', 'ko-kr', 'xx-yy'})
    fams = [f for f in fams if '*' not in f]
    for rname in sorted(R):
        if job['recognizer'] != rname:
            continue
        for getter, mt in GETTERS[rname]:
            for generic in (False, True):
                for fb in (True, False):
                    for fam in fams:
                        rec = R[rname](None, 0, False)
                        answers = []
                        m = None
                        for code in variants(fam):
                            try:
                                m = rec.get_model(mt, code, fb) if generic else getattr(rec, getter)(code, fb)
                                ans = ('model', (getattr(m, '_rt_prov', None) or (None, None, None))[2])
                            except ValueError:
                                ans = ('ValueError', None)
                            except Exception as e:
                                ans = ('EXC', repr(e))
                            answers.append((code, ans))
                            ctx.event('cache_requests')
                        if mt == 'DimensionModel' and m is not None and ans[0] == 'model' and ans[1] in UNIT_PROBE:
                            # behaviour: the served model reads a decimal amount with ITS culture's marks, whichever sibling culture was built first
                            pq, pv = UNIT_PROBE[ans[1]]
                            pr = m.parse(pq)
                            ctx.event('behaviour_probes')
                            if not (len(pr) == 1 and pr[0].resolution and pr[0].resolution.get('value') == pv):
                                ctx.fail('model-does-not-follow-its-culture-conventions', {'model': mt, 'recognizer': rname}, 'probe|%s|%s|%s' % (rname, mt, ans[1]),
                                         {'recognizer': rname, 'getter': getter, 'model_type': mt, 'culture': fam, 'served': ans[1], 'probe': pq}, {'value': pv},
                                         [[e.text, (e.resolution or {}).get('value'), (e.resolution or {}).get('unit')] for e in pr])
                        key = 'case|%s|%s|%s|%s' % (rname, 'get_model' if generic else getter, fam, fb)
                        ctx.observe(key=key, nontrivial=any(a[1][0] == 'model' for a in answers), cell='%s:%s:case' % (rname, mt),
                                    sample={'request': key, 'answers': answers[:3]})
                        ctx.event('letter_case_pairs_compared', len(answers) - 1)
                        if len({a[1] for a in answers}) > 1:
                            ctx.fail('routing-depends-on-letter-case', {'model': mt, 'recognizer': rname}, key,
                                     {'recognizer': rname, 'getter': 'get_model' if generic else getter, 'model_type': mt, 'culture': fam, 'fallback': fb},
                                     'one answer for every letter case', [[c, list(a)] for c, a in answers])


def plan(tier, seed):
    n, steps = (6, 400) if tier == 'quick' else (16, 4000)
    jobs = [{'name': 'history-%d' % i, 'kind': 'history', 'shard': i, 'steps': steps} for i in range(n)]
    jobs += [{'name': 'case-' + rn, 'kind': 'casesweep', 'recognizer': rn} for rn in sorted(GETTERS)]
    return jobs
