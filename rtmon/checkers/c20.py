"""C20 - yes/no answers keep their polarity.

The alternatives are read from the LIVE compiled patterns of the boolean model's extractor
(so a resource edit is what gets enumerated), expanded over letter case, wrapped in punctuation
and filler words whose neutrality is itself measured, and fed to BooleanModel.parse.  Oracle:
exactly one boolean entity spanning the expression, value == polarity, 0 <= score <= 1; nothing
for neutral text; for mixed input one entity that is a listed expression with its own polarity.
"""
import re

LEVEL = 'exploration'
RULE = ('every word alternative of the live TrueRegex/FalseRegex (\\s+ expanded to one, two blanks and a tab) and every emoji '
        'alternative written as a single code point (\\uXXXX outside the surrogate range, \\u0001XXXX) x {lower, UPPER, '
        'Capitalised, Title, aLtErNaTe} x 16 wrappers (bare, punctuation, quotes, parentheses, neutral filler words, filler words '
        'that contain the expression as a substring) ; neutral strings of 0-6 tokens from a closed pool incl. empty and '
        'white-space-only; all ordered pairs of opposite-polarity expressions x 3 joiners. non-trivial = the model returned an '
        'entity or the case expects none and the query is non-empty; distinct = distinct query string.')
EXHAUSTIVE = {'quick': True, 'thorough': True}
JOB_TIMEOUT = 5400

WRAPS = ['{}', '{}.', '{}!', '  {}  ', '"{}"', "'{}'", '({})', 'well {} then', 'hmm , {} !', '{} please', 'I think {}', '{}, thanks',
         'answer: {}', '{}?']
# filler words that contain a listed expression as a substring (but not as a word)
TRAPS = ['yesterday {}', 'nobody said {}', 'I know {}', 'okay so {}', 'synopsis: {}', 'eyes {}', 'surely {}', 'falsely {}', 'Tokyo {}']
NEUTRAL = ['hello', 'world', 'maybe', 'later', '12345', 'the', 'quick', 'brown', 'fox', '.', '?!', 'nothing', 'yesterday', 'okay',
           'nobody', 'yessir', 'know', 'notok', 'nook', 'oki', 'eyes', 'yesno', '-', ',', 'trueness', 'unsure', 'agreed', 'disagreed',
           '1', 'yesss', '\t', ' ', 'nah', 'nicht', 'si', 'oui']


def alternatives(pattern):
    """(words, emoji) written in one of the live regexes"""
    m = re.search(r'\\b\((.*?)\)\\b', pattern)
    words = []
    if m:
        for alt in m.group(1).split('|'):
            if '\\s+' in alt:
                words += [alt.replace('\\s+', ' '), alt.replace('\\s+', '  '), alt.replace('\\s+', '\t')]
            elif re.fullmatch(r'[\w ]+', alt):
                words.append(alt)
    emo = []
    rest = pattern[m.end():] if m else pattern
    g = re.search(r'\|\((.*?)\)', rest)
    if g:
        for alt in g.group(1).split('|'):
            a = re.fullmatch(r'\\u0001([0-9a-fA-F]{4})', alt)
            b = re.fullmatch(r'\\u([0-9a-fA-F]{4})', alt)
            if a:
                emo.append(chr(0x10000 + int(a.group(1), 16)))
            elif b and not (0xD800 <= int(b.group(1), 16) <= 0xDFFF):
                emo.append(chr(int(b.group(1), 16)))
    return words, emo


def casings(w):
    alt = ''.join(c.upper() if i % 2 else c.lower() for i, c in enumerate(w))
    out = []
    for v in (w, w.upper(), w.capitalize(), w.title(), alt):
        if v not in out:
            out.append(v)
    return out


def live(ctx):
    from rtmon import lib
    m = lib.model('ChoiceRecognizer', 'BooleanModel', 'en-us')
    pol = {}
    for pat, typ in m.extractor.config.regexes_map.items():
        words, emo = alternatives(pat.pattern)
        pol[typ.endswith('true')] = (words, emo)
    return m, pol


def view(r):
    from rtmon import lib
    return [lib.ent(e) for e in r]


_N = [0]


def check(m, q, expect, ctx, cls, culture='en-us'):
    _N[0] += 1
    sh = ctx.job.get('shards')
    if sh and (_N[0] % sh) != ctx.job.get('shard'):
        return
    """expect: None (nothing) | ('one', start, end, value) | ('mixed', {normalised text: value})"""
    from rtmon import lib
    where = {'model': 'BooleanModel', 'culture': culture, 'cls': cls}
    case = {'query': q, 'expect': expect, 'cls': cls}
    if expect is not None and expect[0] == 'one':
        where['expr'] = q[expect[1]:expect[2] + 1].lower()
    key = q
    lib.take_swallowed()
    try:
        r = m.parse(q)
        obs = view(r)
    except Exception as e:
        ctx.observe(key=key, cell=cls)
        ctx.fail('exception:' + type(e).__name__, where, key, case, expect, repr(e))
        return
    sw = lib.take_swallowed()
    ctx.observe(key=key, nontrivial=bool(r) or (expect is None and bool(q.strip())), cell=cls,
                sample={'query': q, 'observed': obs})
    ctx.event('boundary_calls')
    def bad(mech):
        ctx.fail(mech, where, key, case, expect, {'entities': obs, 'swallowed': sw})
    for e in r:
        sc = (e.resolution or {}).get('score')
        if e.type_name != 'boolean' or not isinstance((e.resolution or {}).get('value'), bool):
            return bad('malformed-entity')
        if not isinstance(sc, (int, float)) or not (0 <= sc <= 1):
            return bad('score-out-of-range')
    if expect is None:
        if r:
            bad('entity-on-neutral-text')
        return
    if expect[0] == 'one':
        _, st, en, val = expect
        if len(r) == 0:
            return bad('listed-expression-not-recognised')
        if len(r) != 1:
            return bad('more-than-one-entity')
        e = r[0]
        if e.resolution['value'] is not val:
            return bad('wrong-polarity')
        if (e.start, e.end) != (st, en):
            earlier = q.lower().find(q[st:en + 1].lower())
            return bad('span-at-earlier-substring-occurrence' if 0 <= earlier < st and e.start == earlier else 'wrong-span')
        return
    if expect[0] == 'mixed':
        table = expect[1]
        if len(r) != 1:
            return bad('mixed-not-exactly-one-entity')
        e = r[0]
        norm = re.sub(r'\s+', ' ', e.text.lower())
        if norm not in table:
            return bad('mixed-entity-not-a-listed-expression')
        if e.resolution['value'] is not table[norm]:
            return bad('mixed-wrong-polarity')
        if not (0 <= e.start <= e.end < len(q)) or re.sub(r'\s+', ' ', q[e.start:e.end + 1].lower()) != norm:
            return bad('mixed-span-not-the-expression')


def plan(tier, seed):
    jobs = [{'name': 'polarity%d' % i, 'part': 'polarity', 'shard': i, 'shards': 6} for i in range(6)]
    jobs += [{'name': 'neutral%d' % i, 'part': 'neutral', 'shard': i, 'shards': 4} for i in range(4)]
    jobs += [{'name': 'mixed%d' % i, 'part': 'mixed', 'shard': i, 'shards': 2} for i in range(2)]
    return jobs


def run(job, ctx):
    m, pol = live(ctx)
    ctx.extra['alternatives'] = {('true' if k else 'false'): {'words': v[0], 'emoji': v[1]} for k, v in pol.items()}
    table = {}
    for val, (words, emo) in pol.items():
        for w in words:
            table[re.sub(r'\s+', ' ', w)] = val
        for e in emo:
            table[e] = val
    if job['part'] == 'polarity':
        # neutrality of the wrappers is measured, not assumed
        for wr in WRAPS + TRAPS:
            alone = wr.format('')
            r = m.parse(alone)
            ctx.count('wrapper_neutral' if not r else 'wrapper_not_neutral')
            if r:
                ctx.extra.setdefault('wrappers_dropped', []).append(wr)
        dropped = set(ctx.extra.get('wrappers_dropped', []))
        # stray component words of multi-word alternatives as filler ('do not do that, it is not ok'): neutral by
        # themselves, but they share a token with a listed phrase
        stray = []
        listed = {re.sub(r'\s+', ' ', w) for v in pol.values() for w in v[0]}
        for v in pol.values():
            for w in v[0]:
                for part in re.split(r'\s+', w):
                    if part and part not in listed and part not in stray:
                        stray.append(part)
        stray_wraps = []
        for part in stray:
            for wr in ('do %s do that , it is {}' % part, '%s now , %s later , %s ever : {}' % (part, part, part), '{} , but %s like that at all really' % part,
                       'that is %s what I asked for , so {}' % part):
                if not m.parse(wr.format('')):
                    stray_wraps.append(wr)
        ctx.count('stray_component_wrappers', len(stray_wraps))
        for val, (words, emo) in pol.items():
            for w in words:
                for v in casings(w):
                    for wr in WRAPS + TRAPS + stray_wraps:
                        if wr in dropped:
                            continue
                        q = wr.format(v)
                        st = len(wr.split('{}')[0])
                        check(m, q, ['one', st, st + len(v) - 1, val], ctx, 'word-true' if val else 'word-false')
            for e in emo:
                for wr in WRAPS:
                    if wr in dropped:
                        continue
                    q = wr.format(e)
                    st = len(wr.split('{}')[0])
                    check(m, q, ['one', st, st + len(e) - 1, val], ctx, 'emoji-true' if val else 'emoji-false')
    elif job['part'] == 'neutral':
        r = ctx.rng('neutral')
        for q in ['', ' ', '   ', '\t\n', '\u00a0']:
            check(m, q, None, ctx, 'neutral')
        for t in NEUTRAL:
            check(m, t, None, ctx, 'neutral')
        n = 1500 if ctx.tier == 'quick' else 20000
        for _ in range(n):
            k = r.randrange(1, 7)
            q = ' '.join(r.choice(NEUTRAL) for _ in range(k))
            if r.random() < 0.3:
                q = q.upper()
            check(m, q, None, ctx, 'neutral')
    else:
        exprs = sorted(table)
        for a in exprs:
            for b in exprs:
                if table[a] == table[b]:
                    continue
                for joiner in (' ', ' or ', ', '):
                    check(m, a + joiner + b, ['mixed', table], ctx, 'mixed')


def replay_case(fail, ctx):
    m, pol = live(ctx)
    c = fail['case']
    check(m, c['query'], c['expect'], ctx, c.get('cls', 'replay'))
