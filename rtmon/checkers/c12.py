"""C12 - see rtmon/shape.py (shared boundary monitor and workloads); this module carries the property's texts and hooks."""
from rtmon import shape

LEVEL = 'exploration'
EXHAUSTIVE = False
JOB_TIMEOUT = 5400
PID = 'C12'
RULE = ('every Model.parse return event of W-corpus, W-noise, W-gen and W-multi (2-4 generated entity expressions per sentence separated by filler words) x all registered (model, culture) pairs, default options. Oracle: spans of one return sorted by start; next.start <= prev.end is a violation (witness = the two entities). non-trivial = the call returned at least two entities; distinct = distinct (culture, model, query, reference).')


def plan(tier, seed):
    return shape.plan(PID, tier, seed)


def run(job, ctx):
    shape.run(PID, job, ctx)


def replay_case(fail, ctx):
    shape.replay(PID, fail, ctx)
