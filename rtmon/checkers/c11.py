"""C11 - see rtmon/shape.py (shared boundary monitor and workloads); this module carries the property's texts and hooks."""
from rtmon import shape

LEVEL = 'exploration'
EXHAUSTIVE = False
JOB_TIMEOUT = 5400
PID = 'C11'
RULE = ("every resolution value of every date-time entity emitted on W-corpus (supported inputs, 9 cultures), W-noise, W-multi, the generated expressions of C06-C10 and a list of invalid dates/times (February 30, 2019-02-30, 31/04/2019, 24:30, 25:00, 29 February of non-leap years ...). Oracle by declared type: date/time/datetime valid; duration non-negative seconds; ranges well formed and start<end for daterange without Mod; definite TIMEX => value equals it; entity type_name == 'datetimeV2.'+value type; 'not resolved' allowed. non-trivial = the call produced at least one resolution value; distinct = distinct (culture, query, reference).")


def plan(tier, seed):
    return shape.plan(PID, tier, seed)


def run(job, ctx):
    shape.run(PID, job, ctx)


def replay_case(fail, ctx):
    shape.replay(PID, fail, ctx)
