"""C14 - TIMEX strings survive parsing and formatting unchanged.

Monitor: every generated TIMEX string s is pushed through the real datatype
(Timex(s) -> timex_value() -> Timex(...) -> timex_value()); the oracle looks at the
observed field values and strings:
  (a) P(s) has exactly the field values the generator built s from        (parse)
  (b) P(F(P(s))) has the same 20 field values as P(s)                      (round trip)
  (c) F(P(F(P(s)))) == F(P(s))                                             (idempotent)
  (d) canonical s  =>  F(P(s)) == s                                        (fixed point)
  (e) Timex.from_date / from_date_time / from_time (x) == independently formatted x
"""
import datetime as dt
import itertools
from decimal import Decimal

LEVEL = 'exploration'
RULE = ('TIMEX strings are generated from the productions of TimexRegex (one generator per alternative, values '
        'taken from the ranges in the property: years 0001-9999, months, days valid for the month, weeks 01-53, '
        'h/m/s, integer and fractional duration amounts, PRESENT_REF, date+time and date+part-of-day '
        'combinations, (start,end,duration) triples built from a start and a duration). A case is non-trivial '
        'when the parsed object has at least one field set; distinct = distinct TIMEX string (from_* cases: '
        'distinct datetime).')
EXHAUSTIVE = {'quick': False, 'thorough': False}
ASSUMPTIONS = ['canonical form = minimal time (T16 not T16:00), 4-digit year, 2-digit month/day/week, amount without leading "." ']
NO_LIBRARY = False
JOB_TIMEOUT = 5400

FIELDS = ['now', 'years', 'months', 'weeks', 'days', 'hours', 'minutes', 'seconds', 'year', 'month',
          'day_of_month', 'day_of_week', 'season', 'week_of_year', 'weekend', 'week_of_month', 'part_of_day',
          'hour', 'minute', 'second']
DIM = [31, 29, 31, 30, 31, 30, 31, 31, 30, 31, 30, 31]
DUNIT = {'Y': 'years', 'M': 'months', 'W': 'weeks', 'D': 'days'}
TUNIT = {'H': 'hours', 'M': 'minutes', 'S': 'seconds'}


def years(ctx, tier, stream):
    base = [1, 9, 10, 99, 100, 999, 1000, 1582, 1899, 1900, 1999, 2000, 2016, 2020, 2024, 2099, 2100, 9999]
    r = ctx.rng('years:' + stream)
    return sorted(set(base + [r.randrange(1, 10000) for _ in range(30 if tier == 'quick' else 600)]))


def isleap(y):
    return y % 4 == 0 and (y % 100 != 0 or y % 400 == 0)


def time_forms(h, m, s):
    """(string, canonical) spellings of a time; fields are always h, m, s."""
    out = []
    if m == 0 and s == 0:
        out += [('T%02d' % h, True), ('T%02d:00' % h, False), ('T%02d:00:00' % h, False)]
    elif s == 0:
        out += [('T%02d:%02d' % (h, m), True), ('T%02d:%02d:00' % (h, m), False)]
    else:
        out += [('T%02d:%02d:%02d' % (h, m, s), True)]
    return out


def amounts(ctx, tier):
    r = ctx.rng('amounts')
    ints = list(range(1, 61)) + [100, 365, 999, 1000, 5000, 10000] + [r.randrange(61, 5001) for _ in range(40 if tier == 'quick' else 400)]
    out = [(str(n), True) for n in ints]
    for a in ['0.5', '1.5', '2.25', '0.25', '10.75', '0.1', '99.9', '1.25', '3.125']:
        out.append((a, True))
    for a in ['.5', '.25', '01', '1.0', '1.50', '007']:
        out.append((a, False))     # accepted by the regex, not canonical
    return out


def gen(job, ctx):
    tier, cls = ctx.tier, job['cls']
    if cls == 'date':
        for y in years(ctx, tier, 'date'):
            for mo in range(1, 13):
                for d in range(1, DIM[mo - 1] + 1):
                    if mo == 2 and d == 29 and not isleap(y):
                        continue
                    yield {'s': '%04d-%02d-%02d' % (y, mo, d), 'f': {'year': y, 'month': mo, 'day_of_month': d}, 'canon': True}
    elif cls == 'open':
        for mo in range(1, 13):
            yield {'s': 'XXXX-%02d' % mo, 'f': {'month': mo}, 'canon': True}
            for d in range(1, DIM[mo - 1] + 1):
                yield {'s': 'XXXX-%02d-%02d' % (mo, d), 'f': {'month': mo, 'day_of_month': d}, 'canon': True}
            for w in range(1, 6):
                # two spellings of week-of-month: W<nn> is accepted, WXX-<n> is what the formatter prints
                yield {'s': 'XXXX-%02d-W%02d' % (mo, w), 'f': {'month': mo, 'week_of_month': w}, 'canon': False, 'cls2': 'week-of-month'}
                yield {'s': 'XXXX-%02d-WXX-%d' % (mo, w), 'f': {'month': mo, 'week_of_month': w}, 'canon': True, 'cls2': 'week-of-month'}
                for dow in range(1, 8):
                    yield {'s': 'XXXX-%02d-WXX-%d-%d' % (mo, w, dow), 'f': {'month': mo, 'week_of_month': w, 'day_of_week': dow}, 'canon': True}
        for dow in range(1, 8):
            yield {'s': 'XXXX-WXX-%d' % dow, 'f': {'day_of_week': dow}, 'canon': True}
        for s in ('SP', 'SU', 'FA', 'WI'):
            yield {'s': s, 'f': {'season': s}, 'canon': True}
        for p in ('DT', 'NI', 'MO', 'AF', 'EV'):
            yield {'s': 'T' + p, 'f': {'part_of_day': p}, 'canon': True}
        yield {'s': 'PRESENT_REF', 'f': {'now': True}, 'canon': True}
    elif cls == 'year':
        ys = range(1, 10000) if tier == 'thorough' else years(ctx, tier, 'year') + list(range(1, 10000, 97))
        for y in ys:
            yield {'s': '%04d' % y, 'f': {'year': y}, 'canon': True}
            for mo in range(1, 13):
                yield {'s': '%04d-%02d' % (y, mo), 'f': {'year': y, 'month': mo}, 'canon': True}
            for s in ('SP', 'SU', 'FA', 'WI'):
                yield {'s': '%04d-%s' % (y, s), 'f': {'year': y, 'season': s}, 'canon': True}
    elif cls == 'week':
        ys = range(1, 10000, 3) if tier == 'thorough' else years(ctx, tier, 'week')
        for y in ys:
            for w in range(1, 54):
                yield {'s': '%04d-W%02d' % (y, w), 'f': {'year': y, 'week_of_year': w}, 'canon': True}
                yield {'s': '%04d-W%02d-WE' % (y, w), 'f': {'year': y, 'week_of_year': w, 'weekend': True}, 'canon': True}
    elif cls == 'time':
        r = ctx.rng('time')
        for h in range(24):
            for m in range(60):
                secs = range(60) if tier == 'thorough' else sorted({0, 1, 59, r.randrange(60)})
                for s in secs:
                    for st, canon in time_forms(h, m, s):
                        yield {'s': st, 'f': {'hour': h, 'minute': m, 'second': s}, 'canon': canon}
    elif cls == 'duration':
        for a, canon in amounts(ctx, tier):
            for u, f in DUNIT.items():
                yield {'s': 'P%s%s' % (a, u), 'f': {f: str(Decimal(a))}, 'canon': canon, 'dec': True}
            for u, f in TUNIT.items():
                yield {'s': 'PT%s%s' % (a, u), 'f': {f: str(Decimal(a))}, 'canon': canon, 'dec': True}
    elif cls == 'datetime':
        r = ctx.rng('datetime')
        n = 400 if tier == 'quick' else 6000
        dates = []
        for _ in range(n):
            y = r.randrange(1, 10000); mo = r.randrange(1, 13); d = r.randrange(1, (28 if mo == 2 else DIM[mo - 1]) + 1)
            dates.append(('%04d-%02d-%02d' % (y, mo, d), {'year': y, 'month': mo, 'day_of_month': d}))
        for dow in range(1, 8):
            dates.append(('XXXX-WXX-%d' % dow, {'day_of_week': dow}))
        for mo, d in ((12, 25), (2, 29), (1, 1), (10, 9)):
            dates.append(('XXXX-%02d-%02d' % (mo, d), {'month': mo, 'day_of_month': d}))
        for ds, df in dates:
            h, m, s = r.randrange(24), r.choice([0, 0, r.randrange(60)]), r.choice([0, 0, r.randrange(60)])
            for st, canon in time_forms(h, m, s):
                f = dict(df); f.update({'hour': h, 'minute': m, 'second': s})
                yield {'s': ds + st, 'f': f, 'canon': canon}
            p = r.choice(['DT', 'NI', 'MO', 'AF', 'EV'])
            f = dict(df); f['part_of_day'] = p
            yield {'s': ds + 'T' + p, 'f': f, 'canon': True}
    elif cls == 'triple':
        # (start,end,duration): built from a start and a duration with the end computed by the stdlib,
        # so the canonical string is a fixed point iff expand_datetime_range does calendar arithmetic right
        r = ctx.rng('triple')
        n = 300 if tier == 'quick' else 4000
        for _ in range(n):
            a = dt.date(r.randrange(1, 9990), r.randrange(1, 13), r.randrange(1, 29))
            k = r.randrange(1, 400)
            b = a + dt.timedelta(days=k)
            yield {'s': '(%s,%s,P%dD)' % (iso(a), iso(b), k), 'canon': True,
                   'f': {'year': a.year, 'month': a.month, 'day_of_month': a.day, 'days': str(k)}, 'dec': True}
            h1 = r.randrange(0, 23); kh = r.randrange(1, 24 - h1)
            yield {'s': '(T%02d,T%02d,PT%dH)' % (h1, h1 + kh, kh), 'canon': True,
                   'f': {'hour': h1, 'minute': 0, 'second': 0, 'hours': str(kh)}, 'dec': True}
            x = dt.datetime(a.year, a.month, a.day, h1)
            kk = r.randrange(1, 200)
            y = x + dt.timedelta(hours=kk)
            yield {'s': '(%sT%02d,%sT%02d,PT%dH)' % (iso(a), h1, iso(y.date()), y.hour, kk), 'canon': True,
                   'f': {'year': a.year, 'month': a.month, 'day_of_month': a.day, 'hour': h1, 'minute': 0, 'second': 0, 'hours': str(kk)}, 'dec': True}
    elif cls == 'from':
        r = ctx.rng('from')
        n = 3000 if tier == 'quick' else 60000
        for i in range(n):
            x = dt.datetime(r.randrange(1, 10000), r.randrange(1, 13), r.randrange(1, 29), r.randrange(24),
                            r.choice([0, r.randrange(60)]), r.choice([0, r.randrange(60)]))
            if i % 7 == 0:
                x = x.replace(month=r.choice([1, 3, 5, 7, 8, 10, 12]), day=31)
            yield {'from': [x.year, x.month, x.day, x.hour, x.minute, x.second]}


def iso(d):
    return '%04d-%02d-%02d' % (d.year, d.month, d.day)


def fields(t):
    out = {}
    for f in FIELDS:
        v = getattr(t, f)
        if isinstance(v, Decimal):
            v = str(v)
        out[f] = v
    return out


def set_fields(fd):
    return {k: v for k, v in fd.items() if v is not None and v is not False}


def check_case(case, ctx):
    from datatypes_timex_expression import Timex, Time
    where = {'model': 'Timex', 'cls': case.get('cls', '')}
    if 'from' in case:
        y, mo, d, h, mi, se = case['from']
        x = dt.datetime(y, mo, d, h, mi, se)
        e_date = '%04d-%02d-%02d' % (y, mo, d)
        e_time = ('T%02d' % h) if (mi == 0 and se == 0) else ('T%02d:%02d' % (h, mi)) if se == 0 else 'T%02d:%02d:%02d' % (h, mi, se)
        key = 'from:%s' % x.isoformat()
        try:
            got = [Timex.from_date(x).timex_value(), Timex.from_date_time(x).timex_value(),
                   Timex.from_time(Time(h, mi, se)).timex_value()]
        except Exception as e:
            got = ['EXC ' + repr(e)]
        ctx.observe(key=key, cell='from_*', sample={'datetime': x.isoformat(), 'observed': got})
        exp = [e_date, e_date + e_time, e_time]
        if got != exp:
            ctx.fail('from-value', where, key, case, exp, got)
        return
    s = case['s']
    key = s
    try:
        t = Timex(s)
        f1 = fields(t)
        out = t.timex_value()
        t2 = Timex(out)
        f2 = fields(t2)
        out2 = t2.timex_value()
    except Exception as e:
        ctx.observe(key=key, cell=case.get('cls', ''))
        ctx.fail('exception', where, key, case, None, repr(e))
        return
    nontriv = bool(set_fields(f1))
    ctx.observe(key=key, nontrivial=nontriv, cell=case.get('cls', ''),
                sample={'timex': s, 'formatted': out, 'fields': set_fields(f1)})
    exp_f = dict(case['f'])
    if set_fields(f1) != exp_f:
        ctx.fail('parse-fields', where, key, case, exp_f, set_fields(f1))
        return
    if f1 != f2:
        ctx.fail('roundtrip-fields:' + shape(s), where, key, case, set_fields(f1), {'formatted': out, 'fields': set_fields(f2)})
        return
    if out2 != out:
        ctx.fail('not-idempotent', where, key, case, out, out2)
        return
    if case['canon'] and out != s:
        ctx.fail('canonical-not-fixed:' + shape(s), where, key, case, s, out)


def shape(s):
    import re
    return re.sub(r'\d', 'd', s)


CLASSES = ['date', 'open', 'year', 'week', 'time', 'duration', 'datetime', 'triple', 'from']


def plan(tier, seed):
    return [{'name': c, 'cls': c} for c in CLASSES]


def run(job, ctx):
    import datatypes_timex_expression  # noqa: F401  (origin assertion needs it loaded)
    for case in gen(job, ctx):
        case['cls'] = case.get('cls2', job['cls'])
        check_case(case, ctx)


def replay_case(fail, ctx):
    check_case(fail['case'], ctx)
