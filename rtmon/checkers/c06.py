"""C06 - absolute calendar dates are recognised exactly, whatever the reference date.

Generator carries the date; oracle: exactly one datetimeV2.date entity on the span of the
expression, one value, timex == value == date.isoformat().  A sample of cases is executed under
a second, independent reference and under a shifted virtual wall clock: the result must not move.
"""
import datetime as dt
import re

from rtmon import dtlib

LEVEL = 'exploration'
RULE = ('dates 1900-01-01..2099-12-31 (thorough: 4 000 dates for en-us, 1 200 per other culture; quick: 300 / 120; all month ends and leap days of sampled years, day<=12 swaps, special dates, seeded rest) x '
        'layouts (en-us: 15 layouts exhaustively incl. blanks around the separators and backslashes; es-es, es-mx, fr-fr, pt-br, it-it, de-de, nl-nl: ISO, '
        'd/m/yyyy, dd/mm/yyyy, d-m-yyyy, d.m.yyyy, dd.mm.yyyy, the same with blanks around the separators, d\\m\\yyyy, month-name; zh-cn: ISO, yyyy/m/d, yyyy-m-d, yyyy年m月d日) x carrier sentences x an independent random reference in 1950..2090 '
        'per case; 15% of the cases are re-run with a second reference (and a virtual wall clock in another century) and must give the same '
        'entity list. non-trivial = one date entity returned; distinct = distinct (culture, query).')
EXHAUSTIVE = False
JOB_TIMEOUT = 5400


def dates(r, n):
    out = list(dtlib.SPECIAL_DATES)
    for _ in range(n // 6):
        y = r.randrange(1900, 2100)
        mo = r.randrange(1, 13)
        nxt = dt.date(y + (mo == 12), mo % 12 + 1, 1)
        out.append(nxt - dt.timedelta(days=1))            # month end
        out.append(dt.date(y, r.randrange(1, 13), r.randrange(1, 13)))   # day <= 12: month/day swap shows
    for _ in range(n - len(out)):
        out.append(dtlib.rand_date(r))
    return out


FULL_WIDTH_DIGITS = str.maketrans('0123456789', '０１２３４５６７８９')
MOD_PREFIX = {'en-us': ['please pay before', 'since', 'after'], 'es-es': ['antes del', 'desde el'], 'es-mx': ['antes del', 'desde el'], 'fr-fr': ['avant le', 'depuis le'],
              'pt-br': ['antes de', 'desde'], 'it-it': ['prima del', 'dal'], 'de-de': ['vor dem', 'seit dem'], 'nl-nl': ['voor', 'sinds'], 'zh-cn': ['直到']}
TIME_TAILS = [' and after 6PM', ' and later 7 pm']


def car_has_time(q, st, en):
    return any(q[en + 1:].startswith(t) for t in TIME_TAILS)


def check(m, culture, layout, d, q, st, en, ref, ctx, second=None):
    where = {'model': 'DateTimeModel', 'culture': culture, 'layout': layout}
    case = {'culture': culture, 'layout': layout, 'date': d.isoformat(), 'query': q, 'span': [st, en], 'reference': ref.isoformat(),
            'reference2': second.isoformat() if second else None}
    key = '%s|%s' % (culture, q)
    exp = d.isoformat()
    from rtmon import lib
    lib.take_swallowed()
    try:
        r = m.parse(q, ref)
    except Exception as e:
        ctx.observe(key=key, cell=culture + ':' + layout)
        ctx.fail('exception', where, key, case, exp, repr(e))
        return
    obs = dtlib.view(r)
    if car_has_time(q, st, en):
        # carriers that contain a clock time of their own: only the entities touching the date expression are judged
        r = [e for e in r if e is not None and e.start <= en and e.end >= st]
    ok = (len(r) == 1 and r[0].type_name == 'datetimeV2.date' and r[0].start == st and r[0].end == en and
          len(dtlib.vals(r[0])) == 1 and dtlib.vals(r[0])[0].get('timex') == exp and dtlib.vals(r[0])[0].get('value') == exp and
          dtlib.vals(r[0])[0].get('type') == 'date')
    ctx.event('boundary_calls')
    ctx.observe(key=key, nontrivial=len(r) >= 1, cell=culture + ':' + layout, sample={'culture': culture, 'query': q, 'reference': ref.isoformat(), 'observed': obs})
    if not ok:
        if not r:
            mech = 'date-missed'
        elif len(r) > 1:
            mech = 'date-split'
        elif r[0].resolution is None or not dtlib.vals(r[0]):
            mech = 'date-unresolved'
        elif (r[0].start, r[0].end) != (st, en):
            mech = 'date-wrong-span'
            if culture == 'de-de' and layout == 'd.Month yyyy' and r[0].start == st and r[0].end < en and re.fullmatch(r'[\t\u00a0 ]+\d{4}', q[r[0].end + 1:en + 1]) \
                    and not q[r[0].end + 1:en + 1].startswith(' ' + q[en - 3:en + 1]):
                mech = 'de-glued-day-month-loses-the-year-after-tab-or-nbsp'      # known-finding classifier
            if culture == 'zh-cn' and layout == 'yyyy年mm月dd日' and d.day < 10 and (r[0].start, r[0].end) == (st, en - 1):
                mech = 'zh-zero-padded-day-span-stops-before-the-day-character'      # known-finding classifier
        elif len(dtlib.vals(r[0])) != 1:
            mech = 'date-not-single-valued'
        else:
            v = dtlib.vals(r[0])[0]
            got = str(v.get('value'))
            swapped = '%04d-%02d-%02d' % (d.year, d.day, d.month) if d.day <= 12 else None
            mech = 'date-month-day-swapped' if got == swapped else 'date-wrong-value' if got != exp else 'date-wrong-timex-or-type'
        ctx.fail(mech, where, key, case, exp, {'entities': obs, 'swallowed': lib.take_swallowed()})
        return
    if second is not None:
        # the public helper with the culture code in its BCP-47 spelling (fr-FR): same entities as the model asked directly
        from recognizers_date_time import recognize_datetime
        r4 = recognize_datetime(q, culture[:3] + culture[3:].upper(), reference=ref)
        ctx.event('public_helper_cased_culture_runs')
        if dtlib.view(r4) != obs:
            ctx.fail('date-depends-on-letter-case-of-culture-code', where, key, case, obs, dtlib.view(r4))
            return
        # asked again after the same date text was asked WITH a modifier in front (what that call did to shared objects must not stick)
        pre = MOD_PREFIX.get(culture)
        if pre:
            expr = q[st:en + 1]
            for p_ in pre:
                m.parse(p_ + expr if culture == 'zh-cn' else p_ + ' ' + expr, ref)
            if culture == 'zh-cn':
                m.parse(expr + '之前', ref)
            again = dtlib.view(m.parse(q, ref))
            ctx.event('repeat_after_modifier_runs')
            if again != obs:
                ctx.fail('date-changes-after-a-modifier-call', where, key, case, obs, again)
                return
        # a plain date reads the same whatever DateTimeOptions the recogniser was built with
        for opt in (1, 2, 4):
            ro = dtlib.dt_model_opt(culture, opt).parse(q, ref)
            ctx.event('option_variant_runs')
            if dtlib.view(ro) != obs:
                ctx.fail('date-depends-on-recogniser-options', dict(where, options=opt), key, dict(case, options=opt), obs, dtlib.view(ro))
                return
        r2 = m.parse(q, second)
        with dtlib_vclock(dt.datetime(1971, 2, 4, 3, 0)) as reads:
            r3 = m.parse(q, ref)
        ctx.event('second_reference_runs')
        ctx.event('virtual_clock_reads', reads[0])
        if dtlib.view(r2) != obs:
            ctx.fail('date-depends-on-reference', where, key, case, obs, dtlib.view(r2))
        elif dtlib.view(r3) != obs:
            ctx.fail('date-depends-on-wall-clock', where, key, case, obs, dtlib.view(r3))


class dtlib_vclock(object):
    """virtual wall clock: every library module that bound the name `datetime` sees now()/today() = the given instant"""

    def __init__(self, instant):
        self.instant = instant
        self.reads = [0]

    def __enter__(self):
        import sys
        real = dt.datetime
        reads, instant = self.reads, self.instant

        class VDT(real):
            @classmethod
            def now(cls, tz=None):
                reads[0] += 1
                return instant

            @classmethod
            def today(cls):
                reads[0] += 1
                return instant
        self.patched = []
        for name, mod in list(sys.modules.items()):
            if name.startswith(('recognizers_', 'datatypes_timex')) and getattr(mod, 'datetime', None) is real:
                mod.datetime = VDT
                self.patched.append(mod)
        self.real = real
        return self.reads

    def __exit__(self, *a):
        for mod in self.patched:
            mod.datetime = self.real
        return False


def plan(tier, seed):
    jobs = []
    for cu in dtlib.DT_CULTURES:
        sh = (4 if cu == 'en-us' else 1) if tier == 'quick' else (16 if cu == 'en-us' else 4)
        for s in range(sh):
            jobs.append({'name': '%s-%d' % (cu, s), 'culture': cu, 'shard': s, 'shards': sh, 'weight': 1})
    return jobs


def run(job, ctx):
    cu = job['culture']
    m = dtlib.dt_model(cu)
    r = ctx.rng('dates:%s' % cu)
    n = (300 if cu == 'en-us' else 120) if ctx.tier == 'quick' else (4000 if cu == 'en-us' else 1200)
    lay = dtlib.layouts(cu)
    cars = dtlib.carriers(cu)
    i = 0
    for d in dates(r, n):
        for name, f in lay.items():
            ref = dtlib.rand_ref(r)
            car = r.choice(cars)
            second = dtlib.rand_ref(r) if r.random() < 0.15 else None
            i += 1
            if i % job['shards'] != job['shard']:
                continue
            s = f(d)
            q = car.format(s)
            st = q.index(s)
            check(m, cu, name, d, q, st, st + len(s) - 1, ref, ctx, second)
            if i % 9 == 0:
                # typography: no-break spaces / tabs / doubled blanks between the parts, full-width digits (the usual CJK way of writing)
                var = r.choice(['nbsp', 'tab', 'double', 'fullwidth'])
                s3 = {'nbsp': s.replace(' ', '\u00a0'), 'tab': s.replace(' ', '\t'), 'double': s.replace(' ', '  '), 'fullwidth': s.translate(FULL_WIDTH_DIGITS)}[var]
                if s3 != s and not (var == 'fullwidth' and cu not in ('en-us', 'zh-cn')):
                    q3 = car.format(s3)
                    st3 = q3.index(s3)
                    check(m, cu, name, d, q3, st3, st3 + len(s3) - 1, ref, ctx, None)
            if cu == 'en-us' and i % 7 == 0:
                # the date followed by a suffix word and a clock time (the date must survive whatever becomes of the time)
                q2 = 'I can only leave on ' + s + r.choice(TIME_TAILS)
                st2 = q2.index(s)
                check(m, cu, name, d, q2, st2, st2 + len(s) - 1, ref, ctx, None)


def replay_case(fail, ctx):
    c = fail['case']
    m = dtlib.dt_model(c['culture'])
    check(m, c['culture'], c['layout'], dt.date.fromisoformat(c['date']), c['query'], c['span'][0], c['span'][1],
          dt.datetime.fromisoformat(c['reference']), ctx, dt.datetime.fromisoformat(c['reference2']) if c.get('reference2') else None)
