"""C01 - see rtmon/shape.py (shared boundary monitor and workloads); this module carries the property's texts and hooks."""
from rtmon import shape

LEVEL = 'exploration'
EXHAUSTIVE = False
JOB_TIMEOUT = 2400
PID = 'C01'
RULE = ("every Model.parse return event of: W-corpus (all Python-supported Specs inputs of the culture x every registered model of that culture; quick tier: seeded sample of >=500 inputs per culture), W-noise (1-15 tokens from spec words + numerals, punctuation, full-width and CJK forms, emoji, U+0130 and other case-expanding code points), W-gen (the generated expressions of the other checkers in carrier sentences) and W-multi (2-4 expressions per sentence). Oracle per entity: int offsets, 0<=start<=end<len(q), N(text).strip()==N(q[start..end]).strip() with the harness's own length-preserving normaliser N. non-trivial = the call returned at least one entity; distinct = distinct (culture, model, query, reference).")


def plan(tier, seed):
    return shape.plan(PID, tier, seed)


def run(job, ctx):
    shape.run(PID, job, ctx)


def replay_case(fail, ctx):
    shape.replay(PID, fail, ctx)
