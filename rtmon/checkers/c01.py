"""C01 - see rtmon/shape.py (shared boundary monitor and workloads); this module carries the property's texts and hooks."""
from rtmon import shape

LEVEL = 'exploration'
EXHAUSTIVE = False
JOB_TIMEOUT = 5400
PID = 'C01'
RULE = ("every Model.parse return event of: W-corpus (all Python-supported Specs inputs of the culture x every registered model of that culture; quick tier: seeded sample of >=500 inputs per culture), W-noise (1-15 tokens from spec words + numerals, punctuation, full-width and CJK forms, emoji, U+0130 and other case-expanding code points), W-gen (the generated expressions of the other checkers in carrier sentences) and W-multi (2-4 expressions per sentence). Oracle per entity: int offsets, 0<=start<=end<len(q), N(text).strip()==N(q[start..end]).strip() with the harness's own length-preserving normaliser N. non-trivial = the call returned at least one entity; distinct = distinct (culture, model, query, reference).")


def plan(tier, seed):
    return shape.plan(PID, tier, seed)


def run(job, ctx):
    shape.run(PID, job, ctx)


def replay_case(fail, ctx):
    shape.replay(PID, fail, ctx)


# ---- mechanism hook: ChineseMergedExtractor.add_mod re-spans entities with broken arithmetic (known finding);
# the hook records whether add_mod changed any (start, length) during the current parse so that a zh-cn span
# failure is attributed to it only when it actually happened in that call.
ZH_ADD_MOD = {'changed': False, 'calls': 0}


def install_hooks(ctx):
    from recognizers_date_time.date_time.chinese.merged_extractor import ChineseMergedExtractor
    orig = ChineseMergedExtractor.add_mod
    if getattr(orig, '_rt', False):
        return

    def add_mod(self, extract_results, source):
        before = [(e.start, e.length) for e in extract_results]
        r = orig(self, extract_results, source)
        ZH_ADD_MOD['calls'] += 1
        if [(e.start, e.length) for e in extract_results] != before:
            ZH_ADD_MOD['changed'] = True
        return r
    add_mod._rt = True
    ChineseMergedExtractor.add_mod = add_mod
