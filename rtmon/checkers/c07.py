"""C07 - clock times resolve to the right 24-hour time, alone or attached to a date.

Generator carries (h, m, s, am/pm); oracle is 24-hour arithmetic:
  hour 0 and 13..23, or any time with am/pm        -> exactly that time
  hour 1..12 without am/pm                         -> exactly the two readings 12 h apart
  12 am = 00, 12 pm = 12
  '<date> at <time>'                               -> datetime(s) of that date and the same rule
TIMEX is T hh[:mm[:ss]] of each reading.
"""
import datetime as dt

from rtmon import dtlib

LEVEL = 'exploration'
RULE = ('all 1440 HH:MM (x 3 carriers), HH:MM:SS stratified (every hour x minutes step 7 x seconds {0,1,30,59} + seeded), 12-hour '
        'spellings h and h:mm x {am, pm, a.m., p.m., " am", " pm", AM, PM, none}, h o\'clock, composed with date expressions '
        '(ISO, m/d/yyyy, Month d yyyy, tomorrow, yesterday, today) as "<date> at <time>", random references (en-us); bare 24-hour HH:MM in the 8 other cultures. non-trivial = one '
        'resolved time/datetime entity returned; distinct = distinct (query, reference date).')
EXHAUSTIVE = False
JOB_TIMEOUT = 5400
FULL_WIDTH = str.maketrans('0123456789:', '０１２３４５６７８９：')
TIME_CARRIERS = ['at {}', '{}', 'the meeting is at {} .', '   at {}']


def tv(h, m, s=0):
    return '%02d:%02d:%02d' % (h, m, s)


def tx(h, m, s, has_m, has_s):
    t = 'T%02d' % h
    if has_m:
        t += ':%02d' % m
    if has_s:
        t += ':%02d' % s
    return t


def readings(h, m, s, ap, has_m=True, has_s=False):
    """[(value, timex)] the statement demands; ap in {'am','pm',None}; h as written"""
    if ap == 'am':
        H = 0 if h == 12 else h
        return [(tv(H, m, s), tx(H, m, s, has_m, has_s))]
    if ap == 'pm':
        H = 12 if h == 12 else h + 12
        return [(tv(H, m, s), tx(H, m, s, has_m, has_s))]
    if h == 0 or h >= 13:
        return [(tv(h, m, s), tx(h, m, s, has_m, has_s))]
    a, b = h % 12, h % 12 + 12
    return [(tv(a, m, s), tx(a, m, s, has_m, has_s)), (tv(b, m, s), tx(b, m, s, has_m, has_s))]


def check(m, q, expr, ref, want, typ, ctx, cls, datepart=None, culture='en-us'):
    """want: list of (value, timex) readings for the time; datepart: ISO date for composed forms"""
    from rtmon import lib
    where = {'model': 'DateTimeModel', 'culture': culture, 'cls': cls}
    st = q.index(expr)
    en = st + len(expr) - 1
    if datepart:
        exp_vals = sorted('%s %s' % (datepart, v) for v, _ in want)
        exp_tx = sorted('%s%s' % (datepart, t) for _, t in want)
    else:
        exp_vals = sorted(v for v, _ in want)
        exp_tx = sorted(t for _, t in want)
    case = {'query': q, 'expr': expr, 'reference': ref.isoformat(), 'want': want, 'type': typ, 'cls': cls, 'datepart': datepart}
    key = '%s|%s|%s' % (culture, q, ref.date().isoformat() if datepart else '')
    lib.take_swallowed()
    try:
        r = m.parse(q, ref)
    except Exception as e:
        ctx.observe(key=key, cell=cls)
        ctx.fail('exception', where, key, case, exp_vals, repr(e))
        return
    obs = dtlib.view(r)
    ctx.event('boundary_calls')
    ctx.observe(key=key, nontrivial=len(r) == 1 and r[0].resolution is not None, cell=cls,
                sample={'query': q, 'reference': ref.isoformat(), 'observed': obs})
    mech = None
    if not r:
        mech = 'time-missed'
    elif len(r) > 1:
        mech = 'time-split'
    else:
        e = r[0]
        vs = dtlib.vals(e)
        if e.resolution is None or not vs:
            mech = 'time-unresolved'
        elif (e.start, e.end) != (st, en):
            mech = 'time-wrong-span'
            # shape of the wrong output, for the known-finding classifier: the entity is the expression cut right
            # after the 'a' of a glued 'a.m.' (TimeRegex2's implicit-am group wins over the dotted description)
            if (e.start == st and expr.lower().endswith('a.m.') and not expr[-5].isspace() and e.end == en - 3 and
                    sorted(str(v.get('value')) for v in vs) == exp_vals):
                mech = 'span-stops-after-a-of-glued-a.m.'
        elif e.type_name != 'datetimeV2.' + typ or any(v.get('type') != typ for v in vs):
            mech = 'time-wrong-type'
        else:
            got_vals = sorted(str(v.get('value')) for v in vs)
            got_tx = sorted(str(v.get('timex')) for v in vs)
            if got_vals != exp_vals:
                mech = 'wrong-number-of-readings' if len(got_vals) != len(exp_vals) else 'wrong-time-value'
            elif got_tx != exp_tx and not datepart:
                mech = 'wrong-time-timex'
            elif datepart and not tx_dt_ok(got_tx, exp_tx):
                mech = 'wrong-datetime-timex'
    if mech:
        ctx.fail(mech + ':' + cls.split('|')[0], where, key, case, {'values': exp_vals, 'timex': exp_tx, 'span': [st, en]},
                 {'entities': obs, 'swallowed': lib.take_swallowed()})


def tx_dt_ok(got, exp):
    return got == exp


DATES = [
    ('iso', lambda d: d.isoformat()),
    ('m/d/yyyy', lambda d: '%d/%d/%d' % (d.month, d.day, d.year)),
    ('Month d, yyyy', lambda d: '%s %d, %d' % (dtlib.MON_EN[d.month - 1], d.day, d.year)),
]
REL = [('tomorrow', 1), ('yesterday', -1), ('today', 0)]


def gen(job, ctx):
    r = ctx.rng('c07:' + job['part'])
    part = job['part']
    refs = dtlib.refs(r, 40)
    if part == 'hhmm':
        for h in range(24):
            for mi in range(60):
                s = '%02d:%02d' % (h, mi)
                for car in TIME_CARRIERS:
                    yield car.format(s), s, r.choice(refs), readings(h, mi, 0, None), 'time', 'HH:MM', None
    elif part == 'hhmmss':
        n_extra = 800 if ctx.tier == 'quick' else 20000
        combos = [(h, mi, se) for h in range(24) for mi in range(0, 60, 7) for se in (0, 1, 30, 59)]
        combos += [(r.randrange(24), r.randrange(60), r.randrange(60)) for _ in range(n_extra)]
        if ctx.tier == 'thorough':
            combos += [(h, mi, se) for h in (0, 11, 12, 13, 23) for mi in range(60) for se in range(60)]
        for h, mi, se in combos:
            s = '%02d:%02d:%02d' % (h, mi, se)
            yield 'at ' + s, s, r.choice(refs), readings(h, mi, se, None, True, True), 'time', 'HH:MM:SS', None
    elif part == '12h':
        for h in range(1, 13):
            for ap in ('am', 'pm', 'a.m.', 'p.m.', ' am', ' pm', 'AM', 'PM', ' a.m.', ' P.M.'):
                pol = 'pm' if 'p' in ap.lower() else 'am'
                for mi in [None] + list(range(0, 60, 5 if ctx.tier == 'quick' else 1)):
                    s = ('%d%s' % (h, ap)) if mi is None else '%d:%02d%s' % (h, mi, ap)
                    yield 'at ' + s, s, r.choice(refs), readings(h, mi or 0, 0, pol, mi is not None), 'time', '12h|' + ap.strip().lower(), None
            for mi in range(0, 60, 5 if ctx.tier == 'quick' else 1):
                s = '%d:%02d' % (h, mi)
                yield 'at ' + s, s, r.choice(refs), readings(h, mi, 0, None), 'time', '12h|none', None
            s = "%d o'clock" % h
            yield 'at ' + s, s, r.choice(refs), readings(h, 0, 0, None, False), 'time', "12h|o'clock", None
    elif part == 'composed':
        n = 60 if ctx.tier == 'quick' else 1500
        for _ in range(n):
            d = dtlib.rand_date(r)
            ref = r.choice(refs)
            forms = [(name, f(d), d) for name, f in DATES] + [(w, w, ref.date() + dt.timedelta(days=off)) for w, off in REL]
            # relative dates of C08: the date part comes from arithmetic on the reference (which has a clock time of its own)
            D = ref.date()
            mon = D - dt.timedelta(days=D.weekday())
            wd = r.randrange(7)
            N = r.choice([1, 2, 3, 10, r.randrange(1, 400)])
            forms += [('next weekday', 'next %s' % dtlib.WD_EN[wd], mon + dt.timedelta(days=7 + wd)), ('last weekday', 'last %s' % dtlib.WD_EN[wd], mon + dt.timedelta(days=wd - 7)),
                      ('this weekday', 'this %s' % dtlib.WD_EN[wd], mon + dt.timedelta(days=wd)),
                      ('in N days', 'in %d day%s' % (N, '' if N == 1 else 's'), D + dt.timedelta(days=N)), ('N days ago', '%d day%s ago' % (N, '' if N == 1 else 's'), D - dt.timedelta(days=N))]
            for name, ds, dval in forms:
                h = r.choice([0, 9, 12, 15, 23, r.randrange(24)]); mi = r.choice([0, 30, r.randrange(60)])
                t = '%02d:%02d' % (h, mi)
                s = '%s at %s' % (ds, t)
                yield s, s, ref, readings(h, mi, 0, None), 'datetime', 'date at HH:MM|' + name, dval.isoformat()
                h12 = r.randrange(1, 13); ap = r.choice(['am', 'pm'])
                s = '%s at %d%s' % (ds, h12, ap)
                yield s, s, ref, readings(h12, 0, 0, ap, False), 'datetime', 'date at 12h|' + name, dval.isoformat()
                s = '%s at %d:%02d %s' % (ds, h12, mi, ap)
                yield s, s, ref, readings(h12, mi, 0, ap, True), 'datetime', 'date at h:mm ap|' + name, dval.isoformat()


# <relative date word> <at> <time> in the other cultures: am / pm written the culture's way (words and am/pm letters) and 24-hour times.
# fr-fr: 'N heures du matin' / "de l'après-midi" after a date are split by the unchanged tree (only 'Nh du matin' is one entity) and are left out.
CULT_COMPOSED = {
    'es-es': (['hoy', 'mañana', 'ayer', 'pasado mañana'], {'am': ['{d} a las {h} de la mañana', '{d} a las {h}:{mm} de la mañana', '{d} a las {h}am'],
                                                         'pm': ['{d} a las {h} de la tarde', '{d} a las {h}:{mm} de la tarde', '{d} a las {h}pm'], '24': ['{d} a las {H}:{mm}']}),
    'fr-fr': (["aujourd'hui", 'demain', 'hier', 'après-demain'], {'am': ['{d} à {h}h du matin'], '24': ['{d} à {H}h{mm}', '{d} à {H}:{mm}']}),
    'pt-br': (['hoje', 'amanhã', 'ontem', 'depois de amanhã'], {'am': ['{d} às {h} da manhã', '{d} às {h}:{mm} da manhã'], 'pm': ['{d} às {h} da tarde', '{d} às {h}:{mm} da tarde'], '24': ['{d} às {H}:{mm}']}),
    'it-it': (['oggi', 'domani', 'ieri', 'dopodomani'], {'am': ['{d} alle {h} del mattino', '{d} alle {h}:{mm} del mattino'], 'pm': ['{d} alle {h} del pomeriggio', '{d} alle {h}:{mm} del pomeriggio'],
                                                        '24': ['{d} alle {H}:{mm}']}),
    'de-de': (['heute', 'morgen', 'gestern', 'übermorgen'], {'am': ['{d} um {h} Uhr morgens', '{d} um {h}:{mm} Uhr morgens'], 'pm': ['{d} um {h} Uhr nachmittags', '{d} um {h}:{mm} Uhr nachmittags'],
                                                            '24': ['{d} um {H}:{mm} Uhr', '{d} um {H}:{mm}']}),
    'nl-nl': (['vandaag', 'morgen', 'gisteren', 'overmorgen'], {'am': ["{d} om {h} uur 's ochtends", "{d} om {h}:{mm} 's ochtends"], 'pm': ["{d} om {h} uur 's middags", "{d} om {h}:{mm} 's middags"],
                                                               '24': ['{d} om {H}:{mm}', '{d} om {H}:{mm} uur']}),
    'zh-cn': (['今天', '明天', '昨天', '后天'], {'am': ['{d}上午{h}点', '{d}早上{h}点{mm}分'], 'pm': ['{d}下午{h}点', '{d}下午{h}点{mm}分'], '24': ['{d}{H}点{mm}分', '{d}{H}:{mm}']}),
}
CULT_COMPOSED['es-mx'] = CULT_COMPOSED['es-es']
DAY_OFFSETS = [0, 1, -1, 2]


def run_composed_culture(job, ctx):
    cu = job['culture']
    m = dtlib.dt_model(cu)
    r = ctx.rng('c07:composed:' + cu)
    refs = dtlib.refs(r, 6 if ctx.tier == 'quick' else 25)
    days, fam = CULT_COMPOSED[cu]
    for R in refs:
        for pol, tpls in fam.items():
            for t in tpls:
                for di, d in enumerate(days):
                    hours = [0, 9, 13, 23, r.randrange(24)] if pol == '24' else [1, 6, 11, r.randrange(1, 12)]
                    for h in hours:
                        has_m = '{mm}' in t
                        mi = r.choice([0, 30, r.randrange(60)]) if has_m else 0
                        q = t.format(d=d, h=h, H='%02d' % h, mm='%02d' % mi)
                        want = readings(h, mi, 0, None if pol == '24' else pol, has_m)
                        dval = (R.date() + dt.timedelta(days=DAY_OFFSETS[di])).isoformat()
                        check(m, q, q, R, want, 'datetime', ctx, 'date word + time|%s|%s' % (pol, t), dval, culture=cu)


def plan(tier, seed):
    sh = {'hhmm': 5, 'hhmmss': 3, '12h': 3, 'composed': 2} if tier == 'quick' else {'hhmm': 4, 'hhmmss': 6, '12h': 4, 'composed': 2}
    jobs = [{'name': '%s%d' % (p, i), 'part': p, 'shard': i, 'shards': n} for p, n in sh.items() for i in range(n)]
    # 24-hour HH:MM in the other cultures (the bare form is culture independent)
    jobs += [{'name': 'hhmm-' + cu, 'part': 'hhmm-culture', 'culture': cu, 'shard': 0, 'shards': 1} for cu in dtlib.DT_CULTURES if cu != 'en-us']
    jobs += [{'name': 'composed-' + cu, 'part': 'composed-culture', 'culture': cu, 'shard': 0, 'shards': 1} for cu in sorted(CULT_COMPOSED)]
    return jobs


def run(job, ctx):
    if job['part'] == 'composed-culture':
        return run_composed_culture(job, ctx)
    if job['part'] == 'hhmm-culture':
        cu = job['culture']
        m = dtlib.dt_model(cu)
        r = ctx.rng('c07:' + cu)
        refs = dtlib.refs(r, 10)
        for h in range(24):
            for mi in (range(60) if ctx.tier == 'thorough' else sorted({0, 30, 59, r.randrange(60), r.randrange(60)})):
                s = '%02d:%02d' % (h, mi)
                check(m, s, s, r.choice(refs), readings(h, mi, 0, None), 'time', ctx, 'HH:MM', None, culture=cu)
        return
    m = dtlib.dt_model('en-us')
    for i, (q, expr, ref, want, typ, cls, datepart) in enumerate(gen(job, ctx)):
        if i % job['shards'] == job['shard']:
            check(m, q, expr, ref, want, typ, ctx, cls, datepart)
            if i % 6 == 0:
                # typography: no-break space / tab for the blanks, full-width digits and colon
                k = (i // 6) % 3
                tr = (lambda x: x.replace(' ', '\u00a0')) if k == 0 else (lambda x: x.replace(' ', '\t')) if k == 1 else (lambda x: x.translate(FULL_WIDTH))
                if tr(q) != q:
                    check(m, tr(q), tr(expr), ref, want, typ, ctx, cls + '|typography', datepart)
            if job['part'] == 'composed' and i % 3 == 0:
                check(m, '   ' + q + ' ', expr, ref, want, typ, ctx, cls, datepart)      # blanks around the sentence
            if job['part'] == 'composed' and i % 4 == 0:
                # asked again after the same expression was asked WITH a modifier under the same reference object: same answer
                first = dtlib.view(m.parse(q, ref))
                m.parse('before ' + q, ref)
                m.parse('since ' + q, ref)
                again = dtlib.view(m.parse(q, ref))
                ctx.event('repeat_after_modifier_runs')
                if again != first:
                    ctx.fail('answer-changes-after-a-modifier-call', {'model': 'DateTimeModel', 'culture': 'en-us', 'cls': cls}, 'en-us|repeat|%s|%s' % (q, ref.isoformat()),
                             {'query': q, 'expr': expr, 'reference': ref.isoformat(), 'want': [list(w) for w in want], 'type': typ, 'cls': cls, 'datepart': datepart}, first, again)


def replay_case(fail, ctx):
    c = fail['case']
    cu = fail.get('where', {}).get('culture', 'en-us')
    m = dtlib.dt_model(cu)
    check(m, c['query'], c['expr'], dt.datetime.fromisoformat(c['reference']), [tuple(x) for x in c['want']], c['type'], ctx, c['cls'], c.get('datepart'), culture=cu)
