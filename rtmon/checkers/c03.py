"""C03 - numeric literals resolve to exactly the number written, in every culture.

The generator builds the literal FROM the value (so the expected number is known), using the culture's own
grouping and decimal marks read at run time from recognizers_number.culture.SUPPORTED_CULTURES.  Oracle on the
NumberModel / PercentModel return: one entity, exact span, and the value string (a) has no grouping mark,
(b) uses the culture's decimal mark, (c) read back as a Decimal equals the written number (15 significant digits).
"""
from decimal import Decimal

LEVEL = 'exploration'
RULE = ('integers with 1..15 digits and decimals with <=15 significant digits (boundaries 0, 10^k, 10^k+-1, 99..9; seeded rest; thorough tier: '
        'also every integer 0..9999) x forms {plain, grouped, decimal, grouped+decimal, negative plain, negative grouped+decimal} x 10 cultures '
        '(marks from SUPPORTED_CULTURES; zh-cn: ","/".") x {alone, carrier sentence (not zh/ja)}; the same literal + "%" to the percentage model. '
        'non-trivial = the model returned an entity; distinct = distinct (culture, model, query).')
EXHAUSTIVE = False
JOB_TIMEOUT = 5400
# carriers that contain a phrase of the culture's live ambiguity filter (en 'that one', zh 大陆 / 队伍 / 十足): the filter must drop
# the ambiguous word only, never the literal elsewhere in the sentence
CONTEXT_CARRIERS = {'en-us': ['that one costs {} dollars', 'which one is {} off', 'the one with {} points'],
                    'zh-cn': ['大陆有{}人', '队伍里有{}个', '十足的{}']}
CARRIER = {'en-us': 'abc {} xyz', 'es-es': 'tengo {} cosas', 'es-mx': 'tengo {} cosas', 'fr-fr': 'il y a {} choses', 'pt-br': 'tenho {} coisas',
           'de-de': 'ich habe {} Dinge', 'it-it': 'ho {} cose', 'nl-nl': 'ik heb {} dingen'}


def group(s, sep):
    out = ''
    while len(s) > 3:
        out = sep + s[-3:] + out
        s = s[:-3]
    return s + out


def marks(cu):
    from recognizers_number.culture import SUPPORTED_CULTURES
    lf = SUPPORTED_CULTURES.get(cu)
    return (',', '.') if lf is None else (lf.thousands_mark, lf.decimals_mark)


def values(r, tier):
    out = [(0, ''), (1, ''), (9, ''), (10, ''), (99, ''), (100, ''), (999, ''), (1000, ''), (1001, ''), (9999, ''), (10000, ''), (100000, ''), (999999, ''),
           (1000000, ''), (1000001, ''), (123456789, ''), (999999999999, ''), (10 ** 12, ''), (10 ** 14 + 1, ''), (10 ** 15 - 1, ''),
           (0, '5'), (0, '05'), (1, '5'), (3, '14'), (1000, '001'), (1234, '5678'), (999999, '999'), (12, '000001'), (7, '25')]
    n = 250 if tier == 'quick' else 4000
    for _ in range(n):
        nd = r.randrange(1, 16)
        ip = r.randrange(10 ** (nd - 1) if nd > 1 else 0, 10 ** nd)
        fd = r.randrange(0, 5)
        fp = ''.join(r.choice('0123456789') for _ in range(fd))
        if len(str(ip)) + len(fp) > 15:
            fp = fp[:max(0, 15 - len(str(ip)))]
        fp = fp.rstrip('0')
        out.append((ip, fp))
    if tier == 'thorough':
        out += [(i, '') for i in range(0, 10000)]
    return out


FULL_WIDTH = str.maketrans('0123456789.,-', '０１２３４５６７８９．，－')
HALF = {'，': ',', '．': '.', '－': '-'}
CASED_SAMPLE = [0]


def check(m, cu, mt, q, st, en, val, dec, th, form, ctx):
    from rtmon import lib
    lit = q[st:en + 1].lstrip('-')
    intpart = lit.split(dec)[0] if dec in lit and not (th == dec) else lit
    where = {'model': mt, 'culture': cu, 'form': form, 'ungrouped_int_digits': '>=4' if th not in intpart and len(intpart.rstrip('%')) >= 4 else '<4-or-grouped'}
    case = {'culture': cu, 'model': mt, 'query': q, 'span': [st, en], 'value': str(val), 'form': form}
    key = '%s|%s|%s' % (cu, mt, q)
    pct = mt == 'PercentModel'
    lib.take_swallowed()
    try:
        r = m.parse(q)
    except Exception as e:
        ctx.observe(key=key, cell='%s:%s' % (cu, form))
        ctx.fail('exception', where, key, case, str(val), repr(e))
        return
    obs = [lib.ent(e) for e in r]
    ctx.event('boundary_calls')
    ctx.observe(key=key, nontrivial=bool(r), cell='%s:%s' % (cu, form), sample={'culture': cu, 'model': mt, 'query': q, 'observed': obs})
    mech = None
    if not r:
        mech = 'literal-missed'
    elif any(e is None for e in r):
        mech = 'none-entity'
    elif len(r) > 1:
        mech = 'literal-split'
        # shape of the split, for the known-finding classifier
        if all(e.start >= st and e.end <= en for e in r):
            cuts = [HALF.get(q[e.end + 1], q[e.end + 1]) for e in r[:-1] if e.end + 1 <= en]
            if cuts and all(c == th for c in cuts):
                mech = 'literal-split-at-every-grouping-mark'
            elif cuts and all(c == dec for c in cuts):
                mech = 'literal-split-at-decimal-mark'
    else:
        e = r[0]
        got = (e.resolution or {}).get('value')
        if (e.start, e.end) != (st, en):
            mech = 'literal-wrong-span'
            # shape of the wrong span, for the known-finding classifier
            if e.end == en and st < e.start <= en and HALF.get(q[e.start - 1], q[e.start - 1]) == th and th != dec:
                mech = 'entity-starts-after-a-grouping-mark'
            elif e.end == en and st < e.start <= en and HALF.get(q[e.start - 1], q[e.start - 1]) == dec:
                mech = 'entity-starts-after-the-decimal-mark'
        elif e.type_name != ('percentage' if pct else 'number'):
            mech = 'wrong-type'
        elif not isinstance(got, str):
            mech = 'value-not-a-string'
        else:
            g = got[:-1] if pct and got.endswith('%') else got
            if pct and not got.endswith('%'):
                mech = 'percent-sign-missing'
            elif set(g) - set('0123456789-+Ee' + dec):
                # (a)+(b): only digits, sign, exponent and the culture's decimal mark may appear
                mech = 'value-contains-grouping-or-foreign-decimal-mark'
            else:
                try:
                    d = Decimal(g.replace(dec, '.'))
                    if d != val:
                        mech = 'value-lost-sign' if abs(d) == abs(val) else 'value-denotes-another-number'
                except Exception:
                    mech = 'value-not-a-number'
    if mech:
        ctx.fail(mech + (':pct' if pct else ''), where, key, case, {'span': [st, en], 'value': str(val)}, {'entities': obs, 'swallowed': lib.take_swallowed()})
    elif CASED_SAMPLE[0] % 11 == 0:
        # the public helper with the culture code in its BCP-47 spelling (fr-FR, DE-DE): the same entities as the model asked directly
        from recognizers_number import recognize_number, recognize_percentage
        f = recognize_percentage if pct else recognize_number
        code = (cu[:3] + cu[3:].upper()) if CASED_SAMPLE[0] % 2 else cu.upper()
        obs2 = [lib.ent(e) for e in f(q, code)]
        ctx.event('public_helper_cased_culture_runs')
        if obs2 != obs:
            ctx.fail('literal-depends-on-letter-case-of-culture-code' + (':pct' if pct else ''), where, key, dict(case, culture_code=code), obs, obs2)
    CASED_SAMPLE[0] += 1


def run(job, ctx):
    from rtmon import lib
    cu = job['culture']
    th, dec = marks(cu)
    nm = lib.model('NumberRecognizer', 'NumberModel', cu)
    pm = lib.model('NumberRecognizer', 'PercentModel', cu)
    r = ctx.rng('values:' + cu)
    for i, (ip, fp) in enumerate(values(r, ctx.tier)):
        if i % job['shards'] != job['shard']:
            continue
        forms = [('plain', str(ip), Decimal(ip))]
        if ip >= 1000:
            forms.append(('grouped', group(str(ip), th), Decimal(ip)))
        if fp:
            v = Decimal('%d.%s' % (ip, fp))
            forms.append(('decimal', str(ip) + dec + fp, v))
            if ip >= 1000:
                forms.append(('grouped+decimal', group(str(ip), th) + dec + fp, v))
                forms.append(('negative grouped+decimal', '-' + group(str(ip), th) + dec + fp, -v))
        forms.append(('negative', '-' + str(ip), Decimal(-ip)))
        if ip >= 1000:
            forms.append(('negative grouped', '-' + group(str(ip), th), Decimal(-ip)))
            forms.append(('negative spaced grouped', '- ' + group(str(ip), th), Decimal(-ip)))
        forms.append(('negative spaced', '- ' + str(ip), Decimal(-ip)))
        for form, s, val in forms:
            cars = ['{}'] + ([CARRIER[cu]] if cu in CARRIER else [])
            if cu in CONTEXT_CARRIERS and not form.startswith('negative') and i % 4 == 0:
                cars = cars + CONTEXT_CARRIERS[cu]
            for car in cars:
                q = car.format(s)
                st = q.index(s)
                check(nm, cu, 'NumberModel', q, st, st + len(s) - 1, val, dec, th, form, ctx)
            if not form.startswith('negative'):
                check(pm, cu, 'PercentModel', s + '%', 0, len(s), val, dec, th, form + '%', ctx)
            if cu in ('zh-cn', 'ja-jp', 'en-us') and i % 5 == 0 and 'spaced' not in form:
                # the same literal in full-width digits and marks (the usual way of writing in CJK text)
                fw = s.translate(FULL_WIDTH)
                check(nm, cu, 'NumberModel', fw, 0, len(fw) - 1, val, dec, th, form + ',full-width', ctx)
                if not form.startswith('negative'):
                    check(pm, cu, 'PercentModel', fw + '％', 0, len(fw), val, dec, th, form + ',full-width%', ctx)


def plan(tier, seed):
    from recognizers_number.culture import SUPPORTED_CULTURES
    sh = 1 if tier == 'quick' else 3
    return [{'name': '%s-%d' % (cu, s), 'culture': cu, 'shard': s, 'shards': sh} for cu in sorted(SUPPORTED_CULTURES) for s in range(sh)]


def replay_case(fail, ctx):
    from rtmon import lib
    c = fail['case']
    th, dec = marks(c['culture'])
    m = lib.model('NumberRecognizer', c['model'], c['culture'])
    check(m, c['culture'], c['model'], c['query'], c['span'][0], c['span'][1], Decimal(c['value']), dec, th, c['form'], ctx)
