"""C16 - dictionary matching finds exactly the listed phrases at token boundaries.

Monitors on the real SimpleTokenizer / NumberWithUnitTokenizer / StringMatcher(TrieTree):
  (a) structural token invariants: tokens in order, non-overlapping, text == slice, every
      non-space character covered exactly once, no token contains white space;
  (b) matcher: using the tokenizer's OWN token boundaries, the expected result set is computed
      by brute force (every phrase token sequence at every token index; ids = all ids inserted
      for that token sequence in insertion order) and must equal StringMatcher.find as a
      multiset of (start, length, text, ids).
A second, class-based reference tokenizer is evaluated too but only reported
(tokenizer_model_agreement): a deliberate change of split rules that keeps (a) is not a violation.
"""
import collections
import itertools

LEVEL = 'exploration'
RULE = ('alphabet {a,b,A,B,0,1,9,$,.,-,/,CJK,kana,hangul,space,NBSP,tab}; thorough tier: exhaustive over all query strings of '
        'length<=5 over a 7-symbol sub-alphabet x all dictionaries of <=2 phrases of length<=2; both tiers: seeded '
        'sampling of queries up to length 40 with up to 30 phrases (half cut from the query), list/ids, list-only and dict '
        'init forms, both tokenizers. non-trivial = the query has at least one token and (matcher cases) at least one '
        'expected match; distinct = distinct (tokenizer, query, phrases). Phrases always contain at least one token.')
EXHAUSTIVE = {'quick': False, 'thorough': False}
JOB_TIMEOUT = 5400

ALPHA = list('abAB') + list('019') + list('$.-/') + list('中日あア한') + [' ', ' ', '\t']
SUB = ['a', 'b', '1', '$', '-', '中', ' ']


def tokenizers():
    from recognizers_text.matcher.simple_tokenizer import SimpleTokenizer
    from recognizers_text.matcher.number_with_unit_tokenizer import NumberWithUnitTokenizer
    return {'simple': SimpleTokenizer, 'nwu': NumberWithUnitTokenizer}


def is_cj(c):
    o = ord(c)
    return (0x4E00 <= o <= 0x9FBF or 0x3400 <= o <= 0x4DBF or 0x3040 <= o <= 0x309F or 0x30A0 <= o <= 0x30FF or 0xFF66 <= o <= 0xFF9D)


def is_k(c):
    o = ord(c)
    return (0xAC00 <= o <= 0xD7AF or 0x1100 <= o <= 0x11FF or 0x3130 <= o <= 0x318F or 0xFFB0 <= o <= 0xFFDC)


def ref_tokens(name, s):
    """class-based reference tokenizer (reported only)"""
    toks, cur = [], None
    for i, c in enumerate(s):
        single = (not (c.isdigit() or c.isalpha()) and not (name == 'nwu' and c == '$')) or is_cj(c) or (name == 'simple' and is_k(c))
        if c.isspace():
            if cur is not None:
                toks.append((cur, i)); cur = None
        elif single:
            if cur is not None:
                toks.append((cur, i)); cur = None
            toks.append((i, i + 1))
        else:
            if cur is not None and name == 'nwu':
                p = s[i - 1]
                if (c.isalpha() and p.isdigit()) or (c.isdigit() and p.isalpha()) or (c.isdigit() and p == '$') or (c == '$' and p.isdigit()):
                    toks.append((cur, i)); cur = i
            if cur is None:
                cur = i
    if cur is not None:
        toks.append((cur, len(s)))
    return toks


def check_tokens(name, T, q, ctx, where):
    """returns the tokenizer's own (start,end) list, or None when the structural oracle failed"""
    key = 'tok|%s|%s' % (name, q)
    try:
        toks = T().tokenize(q)
        got = [(t.start, t.start + t.length, t.text) for t in toks]
    except Exception as e:
        ctx.observe(key=key, cell=name + ':tokenize')
        ctx.fail('tokenizer-exception', where, key, {'tokenizer': name, 'query': q}, None, repr(e))
        return None
    ctx.observe(key=key, nontrivial=bool(got), cell=name + ':tokenize',
                sample={'tokenizer': name, 'query': q, 'tokens': got[:12]})
    cov = [0] * len(q)
    last = 0
    prob = None
    for a, b, t in got:
        if not (0 <= a < b <= len(q)):
            prob = 'token-bounds'; break
        if a < last:
            prob = 'token-order-or-overlap'; break
        if q[a:b] != t:
            prob = 'token-text-not-slice'; break
        if any(ch.isspace() for ch in t):
            prob = 'token-contains-space'; break
        last = b
        for i in range(a, b):
            cov[i] += 1
    if prob is None:
        for i, ch in enumerate(q):
            if ch.isspace() and cov[i] != 0:
                prob = 'space-covered'; break
            if not ch.isspace() and cov[i] != 1:
                prob = 'char-not-covered-once'; break
    if prob:
        ctx.fail(prob, where, key, {'tokenizer': name, 'query': q}, 'tokens partition the non-space characters in order', got[:30])
        return None
    ref = ref_tokens(name, q)
    ctx.count('tokenizer_model_agreement' if [(a, b) for a, b, _ in got] == ref else 'tokenizer_model_disagreement')
    return [(a, b) for a, b, _ in got]


def check_matcher(name, T, q, phrases, ids, form, ctx, where):
    from recognizers_text.matcher.string_matcher import StringMatcher
    from recognizers_text.matcher.match_strategy import MatchStrategy
    case = {'tokenizer': name, 'query': q, 'phrases': phrases, 'ids': ids, 'form': form}
    key = 'match|%s|%s|%s|%s|%s' % (name, form, q, '\x1f'.join(phrases), '\x1f'.join(ids or []))
    qt = check_tokens(name, T, q, ctx, where)
    if qt is None:
        return
    pts = []
    for p in phrases:
        t = T().tokenize(p)
        pts.append(tuple(x.text for x in t))
    try:
        m = StringMatcher(MatchStrategy.TrieTree, T())
        if form == 'list+ids':
            m.init(list(phrases), list(ids)); eff_ids = ids
        elif form == 'list':
            m.init(list(phrases)); eff_ids = [str(p) for p in phrases]
        else:
            d = collections.OrderedDict()
            for p, i in zip(phrases, ids):
                d.setdefault(i, []).append(p)
            m.init(d)
            eff_ids = []; ph2 = []
            for i, vs in d.items():
                for v in vs:
                    ph2.append(v); eff_ids.append(i)
            pts = [tuple(x.text for x in T().tokenize(p)) for p in ph2]
        res = m.find(q)
        got = sorted((r.start, r.length, r.text, tuple(r.canonical_values)) for r in res)
    except Exception as e:
        ctx.observe(key=key, cell=name + ':find')
        ctx.fail('matcher-exception', where, key, case, None, repr(e))
        return
    qtx = [q[a:b] for a, b in qt]
    expd = collections.OrderedDict()
    for pt, i in zip(pts, eff_ids):
        if pt:                      # a phrase without tokens (only spaces) can match nothing
            expd.setdefault(pt, []).append(i)
    exp = []
    for pt, idl in expd.items():
        L = len(pt)
        for s0 in range(len(qtx) - L + 1):
            if tuple(qtx[s0:s0 + L]) == pt:
                a, b = qt[s0][0], qt[s0 + L - 1][1]
                exp.append((a, b - a, q[a:b], tuple(idl)))
    exp.sort()
    ctx.observe(key=key, nontrivial=bool(exp), cell=name + ':find:' + form,
                sample={'tokenizer': name, 'query': q, 'phrases': phrases[:6], 'matches': [list(x) for x in got[:6]]})
    if got != exp:
        ge, ee = set(got), set(exp)
        mech = 'matcher-missed' if ee - ge and not ge - ee else 'matcher-extra' if ge - ee and not ee - ge else 'matcher-differs'
        if {x[:3] for x in got} == {x[:3] for x in exp}:
            mech = 'matcher-ids-differ'
        ctx.fail(mech, where, key, case, [list(x) for x in exp[:20]], [list(x) for x in got[:20]])


def rs(r, n, alpha=ALPHA):
    return ''.join(r.choice(alpha) for _ in range(n))


def run(job, ctx):
    where = {'model': 'StringMatcher'}
    TS = tokenizers()
    name = job['tok']
    T = TS[name]
    if job['part'] == 'random':
        r = ctx.rng('random:%s:%d' % (name, job['shard']))
        for it in range(job['n']):
            q = rs(r, r.randrange(0, 41))
            phrases = []
            for _ in range(r.randrange(1, 31)):
                p = rs(r, r.randrange(1, 6))
                if r.random() < 0.5 and len(q) > 3:
                    a = r.randrange(len(q)); p = q[a:a + r.randrange(1, 6)]
                if r.random() < 0.15 and phrases:
                    p = r.choice(phrases)           # duplicate phrase under another id
                if p.strip():               # a phrase needs at least one token (white-space-only strings are
                    phrases.append(p)       # not phrases; the design's generator never inserted them)
            if not phrases:
                continue
            ids = ['id%d' % r.randrange(max(1, len(phrases) // 2)) if r.random() < 0.3 else 'id%d' % i for i in range(len(phrases))]
            form = r.choice(['list+ids', 'list+ids', 'list', 'dict'])
            check_matcher(name, T, q, phrases, ids, form, ctx, where)
    elif job['part'] == 'exhaustive':
        # all queries of length <= L over SUB x all dictionaries of <= 2 phrases of length <= 2
        L = job['L']
        phr = [''.join(p) for n in (1, 2) for p in itertools.product(SUB, repeat=n) if ''.join(p).strip()]
        dicts = [[p] for p in phr] + [[p1, p2] for p1 in phr for p2 in phr if p1 <= p2]
        qs = [''.join(p) for n in range(0, L + 1) for p in itertools.product(SUB, repeat=n)]
        for qi, q in enumerate(qs):
            if qi % job['shards'] != job['shard']:
                continue
            for d in dicts:
                if all(set(p) <= set(q) for p in d) or len(d) == 1:
                    check_matcher(name, T, q, d, ['i%d' % k for k in range(len(d))], 'list+ids', ctx, where)


def plan(tier, seed):
    jobs = []
    for tok in ('simple', 'nwu'):
        n = 2500 if tier == 'quick' else 20000
        shards = 2 if tier == 'quick' else 6
        for s in range(shards):
            jobs.append({'name': 'random-%s-%d' % (tok, s), 'part': 'random', 'tok': tok, 'shard': s, 'n': n})
        L, sh = (3, 1) if tier == 'quick' else (5, 6)
        for s in range(sh):
            jobs.append({'name': 'exh-%s-%d' % (tok, s), 'part': 'exhaustive', 'tok': tok, 'L': L, 'shard': s, 'shards': sh, 'weight': 3})
    return jobs


def replay_case(fail, ctx):
    c = fail['case']
    T = tokenizers()[c['tokenizer']]
    if 'phrases' in c:
        check_matcher(c['tokenizer'], T, c['query'], c['phrases'], c.get('ids'), c.get('form', 'list+ids'), ctx, fail.get('where', {}))
    else:
        check_tokens(c['tokenizer'], T, c['query'], ctx, fail.get('where', {}))
