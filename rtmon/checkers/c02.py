"""C02 - recognition is a pure function of (query, culture, options, reference date).

Sequential specification: a map  f : tuple -> canonical JSON of the entity list.  A history is correct iff every
completed call on tuple t returned f(t), whatever preceded it, on whatever thread, from whatever cache state.
Calls carry no writes, so checking is linear: group all observations by tuple (the tuple IS the unique key) and
require exactly one distinct value.  f is not a golden file: it is whatever the schedules observe, and all
schedules must agree with each other.

Schedules (each is one or more worker processes; every one observes every tuple of its pool shard):
  cold        fresh process, pool order, recognize_* helpers (new recogniser per call, class-level shared cache)
  reversed    fresh process, reversed order
  shuffled    fresh process, seeded permutation, each tuple 3x interleaved with the others (warm cache)
  longlived   one long-lived recogniser object per package, models fetched once
  cachereset  the ModelFactory cache is emptied every 25 calls (cold model construction in the middle of a history)
  threads8    8 threads pulling from one shared queue, plain
  yield4      4 threads with sys.monitoring LINE events on repository code: seeded Bernoulli(p) time.sleep(0)
              => forced GIL hand-offs at statement granularity inside extract/parse
  thrimport   the library is first imported INSIDE a worker thread, calls run on 4 other threads
  vclock-*    the wall clock seen by the library (datetime.now / today in every library module) is set to three
              far-apart instants; tuples carry an explicit reference, so nothing may change
Supporting monitors: decimal precision of the calling thread at call entry/exit, clock reads with call site.
"""
import collections
import datetime as dt
import hashlib
import json
import queue
import sys
import threading
import time

LEVEL = 'exploration'
RULE = ('pool of (kind, culture, options, query, reference) tuples: seeded sample of Python-supported Specs inputs of every recogniser and culture + '
        'generated number words with decimals/fractions, percentages, currency compounds, date-time expressions with modifiers, the same query under '
        'several DateTimeOptions; every tuple is observed under the schedules listed in the module docstring. non-trivial = a tuple observed under at '
        'least two different schedules with at least one entity; distinct = distinct tuple.')
EXHAUSTIVE = False
JOB_TIMEOUT = 5400

KINDS = {
    'number': ('NumberRecognizer', 'NumberModel'), 'ordinal': ('NumberRecognizer', 'OrdinalModel'), 'percentage': ('NumberRecognizer', 'PercentModel'),
    'currency': ('NumberWithUnitRecognizer', 'CurrencyModel'), 'dimension': ('NumberWithUnitRecognizer', 'DimensionModel'),
    'temperature': ('NumberWithUnitRecognizer', 'TemperatureModel'), 'age': ('NumberWithUnitRecognizer', 'AgeModel'),
    'datetime': ('DateTimeRecognizer', 'DateTimeModel'),
    'phone': ('SequenceRecognizer', 'PhoneNumberModel'), 'ip': ('SequenceRecognizer', 'IpAddressModel'), 'email': ('SequenceRecognizer', 'EmailModel'),
    'url': ('SequenceRecognizer', 'URLModel'), 'mention': ('SequenceRecognizer', 'MentionModel'), 'hashtag': ('SequenceRecognizer', 'HashtagModel'),
    'guid': ('SequenceRecognizer', 'GUIDModel'), 'boolean': ('ChoiceRecognizer', 'BooleanModel'),
}
GETTER = {'number': 'get_number_model', 'ordinal': 'get_ordinal_model', 'percentage': 'get_percentage_model', 'currency': 'get_currency_model',
          'dimension': 'get_dimension_model', 'temperature': 'get_temperature_model', 'age': 'get_age_model', 'datetime': 'get_datetime_model',
          'phone': 'get_phone_number_model', 'ip': 'get_ip_address_model', 'email': 'get_email_model', 'url': 'get_url_model', 'mention': 'get_mention_model',
          'hashtag': 'get_hashtag_model', 'guid': 'get_guid_model', 'boolean': 'get_boolean_model'}
SPEC_KIND = {'NumberModel': 'number', 'OrdinalModel': 'ordinal', 'PercentModel': 'percentage', 'CurrencyModel': 'currency', 'DimensionModel': 'dimension',
             'TemperatureModel': 'temperature', 'AgeModel': 'age', 'DateTimeModel': 'datetime', 'PhoneNumberModel': 'phone', 'IpAddressModel': 'ip',
             'EmailModel': 'email', 'URLModel': 'url', 'MentionModel': 'mention', 'HashtagModel': 'hashtag', 'GUIDModel': 'guid', 'BooleanModel': 'boolean'}
GEN = [
    ('number', 'en-us', 0, 'three point one four'), ('number', 'en-us', 0, 'one third'), ('number', 'en-us', 0, '2/3'), ('number', 'en-us', 0, '1.1^23'),
    ('number', 'en-us', 0, 'five and three quarters'), ('number', 'en-us', 0, '0.123456789012345678'), ('number', 'en-us', 0, 'one hundred and one point five five five five'),
    ('number', 'en-us', 0, 'two and a half dozen'), ('number', 'en-us', 0, '1,234,567.891234567891'), ('number', 'en-us', 0, 'a seventh of nineteen point three'),
    ('number', 'zh-cn', 0, '三点一四'), ('number', 'zh-cn', 0, '十二点五'), ('number', 'zh-cn', 0, '三分之一'), ('percentage', 'zh-cn', 0, '百分之三十三点三'),
    ('number', 'ja-jp', 0, '三分の一'), ('number', 'fr-fr', 0, 'trois virgule un quatre'), ('number', 'fr-fr', 0, 'un tiers'), ('number', 'es-es', 0, 'tres coma catorce'),
    ('number', 'es-es', 0, 'un tercio'), ('number', 'de-de', 0, 'drei komma eins vier'), ('number', 'de-de', 0, 'ein drittel'), ('number', 'pt-br', 0, 'três vírgula um quatro'),
    ('number', 'it-it', 0, 'un terzo'), ('number', 'nl-nl', 0, 'een derde'), ('percentage', 'en-us', 0, 'one third percent'), ('percentage', 'en-us', 0, '33.3333333333 percent'),
    ('percentage', 'fr-fr', 0, 'un tiers pour cent'), ('currency', 'en-us', 0, 'three dollars and one third'), ('currency', 'en-us', 0, '5 dollars and 33 cents'),
    ('currency', 'en-us', 0, 'one point one seven billion dollars'), ('dimension', 'en-us', 0, 'two thirds of a mile'), ('currency', 'zh-cn', 0, '三块五毛'),
    ('datetime', 'en-us', 0, 'before 3pm tomorrow'), ('datetime', 'en-us', 0, 'since around May 6'), ('datetime', 'en-us', 0, 'from March 5, 2019 to April 7, 2019'),
    ('datetime', 'en-us', 0, 'every 2 weeks starting next monday at 3pm'), ('datetime', 'en-us', 0, 'the 31st'), ('datetime', 'en-us', 0, 'Tuesday the 30th'),
    ('datetime', 'en-us', 0, '3 days from today'), ('datetime', 'en-us', 0, 'between the 3rd and the 21st'), ('datetime', 'en-us', 0, 'until next friday evening'),
    ('datetime', 'en-us', 0, 'one and a half hours'), ('datetime', 'en-us', 0, 'two thirds of an hour ago'), ('datetime', 'en-us', 0, 'from 3pm to 5pm on the 31st'),
    ('datetime', 'en-us', 1, 'from 3pm to 5pm tomorrow'), ('datetime', 'en-us', 2, 'tomorrow at 5pm'), ('datetime', 'en-us', 4, 'tomorrow at 5pm'), ('datetime', 'en-us', 0, 'tomorrow at 5pm'),
    ('datetime', 'en-us', 2, 'from March 5 to April 7 at 9am'), ('datetime', 'en-us', 4, 'this week'), ('datetime', 'en-us', 1, 'this week'),
    ('datetime', 'zh-cn', 0, '明天下午三点到五点'), ('datetime', 'fr-fr', 0, 'avant demain 15h'), ('datetime', 'es-es', 0, 'desde el 5 de mayo'), ('datetime', 'de-de', 0, 'vor dem 5. Mai'),
    ('datetime', 'nl-nl', 0, 'sinds 5 mei'), ('datetime', 'pt-br', 0, 'antes de 5 de maio'), ('datetime', 'it-it', 0, 'prima del 5 maggio'),
]
CROSS_TEXTS = [('en-us', 'add 3kg of flour'), ('en-us', 'she is 20yo and owes $5.50'), ('en-us', 'run 5km then 10k more'), ('en-us', 'it was 30c at 10:30am on the 3rd'),
               ('en-us', 'twenty percent of 12 dollars and 5 cents'), ('en-us', 'two thirds of a mile in 3 days'), ('en-us', '99% of 3.5 million euros'),
               ('en-us', 'the second of 3 payments of 1,200.50 usd'), ('en-us', '5 feet 10 inches and 70 kilos at 98.6 degrees'), ('en-us', 'one and a half hours or 90 minutes'),
               ('en-us', '-7 degrees celsius and 12 years old'), ('en-us', 'half a dozen eggs cost 3 bucks'), ('zh-cn', '三点五公斤和百分之二十'), ('zh-cn', '他今年20岁，有五十块钱'),
               ('zh-cn', '明天下午3点气温30度'), ('fr-fr', '3kg de farine et 20% de 12 euros'), ('fr-fr', 'il a 20 ans et mesure 1,80 m'), ('es-es', '3kg de harina y 20% de 12 euros'),
               ('es-es', 'tiene 20 años y mide 1,80 m'), ('pt-br', '3kg de farinha e 20% de 12 reais'), ('nl-nl', '3kg meel en 20% van 12 euro'), ('de-de', '3kg Mehl und 20% von 12 Euro'),
               ('it-it', '3kg di farina e 20% di 12 euro'), ('pt-br', 'ele tem 20 anos e 1,80 m'),
               # two cultures that share their configuration classes (es-es / es-mx) with numerals whose marks differ
               ('es-mx', 'tiene 20 años y mide 1.80 m'), ('es-es', '3,5 kg de harina y 1.234 euros'), ('es-mx', '3.5 kg de harina y 1,234 pesos'), ('es-mx', '3kg de harina y 20% de 12 pesos')]
MULTI_REF = [('en-us', 'black friday'), ('en-us', 'thanksgiving'), ('en-us', 'easter'), ('en-us', 'the first monday of september'), ('en-us', 'next friday at 3pm'),
             ('en-us', 'february 29'), ('en-us', 'labor day'), ('en-us', 'mothers day'), ('es-es', 'viernes negro'), ('es-es', 'pascuas'), ('es-es', 'el día del padre'),
             ('nl-nl', 'black friday'), ('it-it', 'giorno della memoria'), ('fr-fr', 'pâques'), ('de-de', 'ostern'), ('pt-br', 'páscoa'), ('zh-cn', '春节'), ('zh-cn', '母亲节'),
             ('en-us', 'cyber monday'), ('en-us', 'this weekend')]
VCLOCKS = [dt.datetime(1971, 2, 4, 3, 0), dt.datetime(2016, 2, 29, 12, 0), dt.datetime(2093, 12, 31, 23, 30)]


def build_pool(seed, tier):
    """deterministic list of tuples [kind, culture, options, query, reference-iso|None]; identical in every worker"""
    import random
    from rtmon import lib
    r = random.Random('%s:C02:pool' % seed)
    n_corpus = 230 if tier == 'quick' else 1300
    pool = []
    files = lib.spec_files()
    cand = []
    for f in files:
        parts = f.split('/')
        lang, name = parts[-2], parts[-1][:-5]
        cu = lib.LANG_CULTURE.get(lang)
        if not cu:
            continue
        kind = None
        for mn, k in SPEC_KIND.items():
            if name == mn:
                kind = k
        if kind is None:
            continue
        for s in lib.load_spec(f):
            if not lib.py_supported(s):
                continue
            ref = (s.get('Context') or {}).get('ReferenceDateTime')
            cand.append([kind, cu, 0, s['Input'], ref[:19] if ref else ('2016-11-07T00:00:00' if kind == 'datetime' else None)])
    bykind = collections.defaultdict(list)
    for c in cand:
        bykind[(c[0], c[1])].append(c)
    # (kind, culture) pairs that exist as registered models (not only those with Specs files)
    bykind_all = set(bykind)
    for rn_, mt_, cu_ in lib.registered():
        if mt_ in SPEC_KIND:
            bykind_all.add((SPEC_KIND[mt_], cu_))
    cells = sorted(bykind)
    while len(pool) < n_corpus and cells:
        for cell in list(cells):
            lst = bykind[cell]
            if not lst:
                cells.remove(cell)
                continue
            pool.append(lst.pop(r.randrange(len(lst))))
            if len(pool) >= n_corpus:
                break
    for k, cu, opt, q in GEN:
        pool.append([k, cu, opt, q, '2016-11-07T10:30:00' if k == 'datetime' else None])
    # the SAME text sent to every model kind of its culture (state shared between recognisers: extractors, parsers and
    # configuration objects of one package are reused by the models of another)
    cross = CROSS_TEXTS if tier == 'thorough' else CROSS_TEXTS[::2] + CROSS_TEXTS[-4:]
    for cu, q in cross:
        for kind in ('number', 'ordinal', 'percentage', 'currency', 'dimension', 'temperature', 'age', 'datetime'):
            if (kind, cu) in bykind_all:
                pool.append([kind, cu, 0, q, '2016-11-07T10:30:00' if kind == 'datetime' else None])
    # the SAME date-time query under several reference dates (a value computed for one reference must not be remembered
    # for the next): holidays, relative and year-less expressions
    multi_ref = MULTI_REF if tier == 'thorough' else MULTI_REF[::2]
    for cu, q in multi_ref:
        for ref in ('2016-11-07T10:30:00', '2017-11-07T00:00:00', '2019-03-01T12:00:00', '2020-02-29T23:59:59'):
            pool.append(['datetime', cu, 0, q, ref])
    # year-less numeric dates of both orders under ONE reference: what an earlier call (or an earlier date of the same reference)
    # taught the parser must not change how the next ambiguous date is read
    for cu in ('en-us', 'es-es', 'fr-fr', 'it-it', 'pt-br', 'nl-nl', 'de-de'):
        for q in HISTORY_DATES:
            pool.append(['datetime', cu, 0, q, '2016-11-07T00:00:00'])
    # the same absolute date text with and without a modifier in front, under one reference
    for cu, pairs in MOD_HISTORY.items():
        for q in pairs:
            pool.append(['datetime', cu, 0, q, '2016-11-07T00:00:00'])
    seen, out = set(), []
    for t in pool:
        key = json.dumps(t, ensure_ascii=False)
        if key not in seen:
            seen.add(key)
            out.append(t)
    return out


def canon(res):
    from rtmon import lib
    return json.dumps([lib.ent(e) for e in res], ensure_ascii=False, sort_keys=True)


def helpers():
    from recognizers_number import recognize_number, recognize_ordinal, recognize_percentage
    from recognizers_number_with_unit import recognize_age, recognize_currency, recognize_dimension, recognize_temperature
    from recognizers_date_time import recognize_datetime, DateTimeOptions
    from recognizers_sequence.sequence.sequence_recognizer import (recognize_phone_number, recognize_email, recognize_ip_address,
                                                                   recognize_mention, recognize_hashtag, recognize_url, recognize_guid)
    from recognizers_choice.choice.recognizers_choice import recognize_boolean
    F = {'number': recognize_number, 'ordinal': recognize_ordinal, 'percentage': recognize_percentage, 'age': recognize_age, 'currency': recognize_currency,
         'dimension': recognize_dimension, 'temperature': recognize_temperature, 'phone': recognize_phone_number, 'email': recognize_email,
         'ip': recognize_ip_address, 'mention': recognize_mention, 'hashtag': recognize_hashtag, 'url': recognize_url, 'guid': recognize_guid,
         'boolean': recognize_boolean}

    def call(t):
        kind, cu, opt, q, ref = t
        if kind == 'datetime':
            return recognize_datetime(q, cu, DateTimeOptions(opt), ref_object(ref))
        return F[kind](q, cu)
    return call


MOD_HISTORY = {'en-us': ['please pay before 2015-01-05', 'the invoice is dated 2015-01-05', 'since 3/4/2016', 'on 3/4/2016', 'after 12/25/2018', '12/25/2018', 'until 5/6/2017 at 3pm', '5/6/2017 at 3pm'],
               'es-es': ['antes del 5/1/2015', 'la factura es del 5/1/2015', 'desde el 3/4/2016', 'el 3/4/2016'], 'fr-fr': ['avant le 5/1/2015', 'le 5/1/2015', 'depuis le 3/4/2016', 'le 3/4/2016'],
               'de-de': ['vor dem 5.1.2015', 'am 5.1.2015', 'seit dem 3.4.2016', 'am 3.4.2016'], 'it-it': ['prima del 5/1/2015', 'il 5/1/2015'], 'pt-br': ['antes de 5/1/2015', 'em 5/1/2015'],
               'nl-nl': ['voor 5-1-2015', 'op 5-1-2015']}
HISTORY_DATES = ['25/3', '3/25', '5/3', '7/8', '13/2', '2/13', '12/11', '25-3', '5-3', '3.25', '5.3']
REF_OBJECTS = {}


def ref_object(ref):
    """ONE datetime object per distinct reference instant and process, as a caller does who takes `now` once and asks about
    several texts: state keyed on the identity of the reference object is then shared between calls like any other state"""
    if not ref:
        return None
    o = REF_OBJECTS.get(ref)
    if o is None:
        o = REF_OBJECTS.setdefault(ref, dt.datetime.strptime(ref, '%Y-%m-%dT%H:%M:%S'))
    return o


def longlived_caller():
    from recognizers_date_time import DateTimeRecognizer, DateTimeOptions
    from rtmon import lib
    recs = {}
    models = {}

    def call(t):
        kind, cu, opt, q, ref = t
        rn, mt = KINDS[kind]
        if kind == 'datetime':
            k = ('dt', opt)
            if k not in recs:
                recs[k] = DateTimeRecognizer(None, DateTimeOptions(opt), False)
            rec = recs[k]
        else:
            rec = lib.recognizer(rn)
        mk = (kind, cu, opt)
        if mk not in models:
            # the same public getter the recognize_* helper of this kind uses
            models[mk] = getattr(rec, GETTER[kind])(cu, True)
        m = models[mk]
        if kind == 'datetime':
            return m.parse(q, ref_object(ref))
        return m.parse(q)
    return call


class Obs(object):
    def __init__(self, ctx, schedule):
        self.ctx, self.schedule = ctx, schedule
        self.lock = threading.Lock()
        self.rows = []
        self.prec_changes = 0

    def record(self, idx, t, caller):
        import decimal
        p0 = decimal.getcontext().prec
        try:
            res = caller(t)
            c = canon(res)
            n = len(res)
        except Exception as e:
            c = 'RAISED ' + repr(e)
            n = 0
        p1 = decimal.getcontext().prec
        h = hashlib.blake2b(c.encode('utf-8', 'surrogatepass'), digest_size=8).hexdigest()
        with self.lock:
            self.rows.append([idx, self.schedule, h, c[:400], n, threading.current_thread().name, p0])
            if p0 != p1:
                self.prec_changes += 1
        self.ctx.event('boundary_calls')


def run_threads(pool_idx, pool, caller, obs, nthreads, reps=1):
    q = queue.Queue()
    for _ in range(reps):
        for i in pool_idx:
            q.put(i)

    def worker():
        while True:
            try:
                i = q.get_nowait()
            except queue.Empty:
                return
            obs.record(i, pool[i], caller)
    ths = [threading.Thread(target=worker, name='w%d' % k) for k in range(nthreads)]
    [t.start() for t in ths]
    [t.join() for t in ths]


class YieldInjector(object):
    """sys.monitoring LINE events on repository code only; seeded Bernoulli(p) sleep(0) => GIL hand-off"""

    def __init__(self, seed, p):
        import random
        from rtmon import bootstrap
        self.rnd = random.Random(seed)
        self.p = p
        self.root = bootstrap.LIBROOT
        self.lines = 0
        self.yields = 0
        self.points = set()
        self.per_thread = collections.defaultdict(lambda: hashlib.blake2b(digest_size=8))
        self.lock = threading.Lock()
        self.mon = sys.monitoring
        self.tid = 3

    def on_line(self, code, line):
        if not code.co_filename.startswith(self.root):
            return self.mon.DISABLE
        with self.lock:
            self.lines += 1
            fire = self.rnd.random() < self.p
            if fire:
                self.yields += 1
                self.points.add((code.co_filename[len(self.root) + 1:], line))
                self.per_thread[threading.current_thread().name].update(('%s:%d;' % (code.co_name, line)).encode())
        if fire:
            time.sleep(0)

    def __enter__(self):
        self.mon.use_tool_id(self.tid, 'rtmon-yield')
        self.mon.register_callback(self.tid, self.mon.events.LINE, self.on_line)
        self.mon.set_events(self.tid, self.mon.events.LINE)
        return self

    def __exit__(self, *a):
        self.mon.set_events(self.tid, 0)
        self.mon.register_callback(self.tid, self.mon.events.LINE, None)
        self.mon.free_tool_id(self.tid)
        return False


class VClock(object):
    def __init__(self, instant):
        self.instant = instant
        self.reads = collections.Counter()

    def __enter__(self):
        real = dt.datetime
        me = self

        class VDT(real):
            @classmethod
            def now(cls, tz=None):
                f = sys._getframe(1)
                me.reads['%s:%d' % (f.f_code.co_filename.split('/')[-1], f.f_lineno)] += 1
                return me.instant

            @classmethod
            def today(cls):
                f = sys._getframe(1)
                me.reads['%s:%d' % (f.f_code.co_filename.split('/')[-1], f.f_lineno)] += 1
                return me.instant
        self.patched = []
        for name, mod in list(sys.modules.items()):
            if name.startswith(('recognizers_', 'datatypes_timex')) and getattr(mod, 'datetime', None) is real:
                mod.datetime = VDT
                self.patched.append(mod)
        self.real = real
        return self

    def __exit__(self, *a):
        for mod in self.patched:
            mod.datetime = self.real
        return False


def reset_cache():
    from recognizers_text import ModelFactory
    ModelFactory._ModelFactory__cache.clear()


def run(job, ctx):
    sched = job['schedule']
    obs = Obs(ctx, sched)
    if sched == 'thrimport':
        # first import of the library happens on a non-main thread
        box = {}

        def imp():
            box['pool'] = build_pool(ctx.seed, ctx.tier)
            box['caller'] = helpers()
        th = threading.Thread(target=imp, name='importer')
        th.start()
        th.join()
        pool, caller = box['pool'], box['caller']
    else:
        pool = build_pool(ctx.seed, ctx.tier)
        caller = helpers()
    idx = [i for i in range(len(pool)) if i % job['shards'] == job['shard']]
    if sched == 'cold':
        for i in idx:
            obs.record(i, pool[i], caller)
    elif sched == 'reversed':
        for i in reversed(idx):
            obs.record(i, pool[i], caller)
    elif sched == 'shuffled':
        r = ctx.rng('shuffle:%d' % job['shard'])
        seq = idx * 3
        r.shuffle(seq)
        for i in seq:
            obs.record(i, pool[i], caller)
    elif sched == 'longlived':
        ll = longlived_caller()
        for rep in range(2):
            for i in idx:
                obs.record(i, pool[i], ll)
    elif sched == 'cachereset':
        ll = helpers()
        for n, i in enumerate(idx):
            if n % job.get('every', 25) == 0:
                reset_cache()
                ctx.event('cache_resets')
            obs.record(i, pool[i], ll)
    elif sched in ('threads8', 'thrimport', 'threads16'):
        if job.get('warm'):
            # quick tier: models are built once sequentially first (8 threads racing to construct the same uncached
            # date-time model cost minutes of GIL contention); the thorough tier also runs the cold variant
            warm = Obs(ctx, sched + '-warmup')
            for i in idx:
                warm.record(i, pool[i], caller)
            obs.rows.extend(warm.rows)
        run_threads(idx, pool, caller, obs, {'threads8': 8, 'thrimport': 4, 'threads16': 16}[sched], reps=2)
    elif sched.startswith('yield'):
        # model construction is done before the monitor is switched on (LINE events on the thousands of configuration
        # statements cost minutes and are not where calls interleave); the monitored phase is extract/parse
        warm = Obs(ctx, sched + '-warmup')
        for i in idx:
            warm.record(i, pool[i], caller)
        obs.rows.extend(warm.rows)
        with YieldInjector('%s:%s:%d' % (ctx.seed, sched, job.get('rep', 0)), job['p']) as y:
            run_threads(idx, pool, caller, obs, job['threads'])
        ctx.event('line_events', y.lines)
        ctx.event('injected_yields', y.yields)
        ctx.extra['yield_points'] = sorted('%s:%d' % p for p in y.points)[:4000]
        ctx.extra['interleaving_digests'] = sorted({d.hexdigest() for d in y.per_thread.values()})
    elif sched.startswith('vclock'):
        inst = VCLOCKS[job['clock']]
        with VClock(inst) as vc:
            for i in idx:
                if pool[i][0] == 'datetime':
                    obs.record(i, pool[i], caller)
        ctx.event('virtual_clock_reads', sum(vc.reads.values()))
        ctx.extra['clock_read_sites'] = dict(vc.reads.most_common(30))
    for row in obs.rows:
        ctx.observe(key=None, nontrivial=False)
    ctx.evals = len(obs.rows)
    ctx.extra['obs'] = obs.rows
    ctx.count('decimal_precision_changed_across_call', obs.prec_changes)
    ctx.extra['decimal_prec_seen'] = sorted({r[6] for r in obs.rows})
    ctx.extra['pool_size'] = 0
    if job.get('report_pool'):
        ctx.extra['pool_size'] = len(pool)


def plan(tier, seed):
    jobs = []

    def add(s, shards, **kw):
        for i in range(shards):
            d = {'name': '%s-%d' % (s, i), 'schedule': s, 'shard': i, 'shards': shards}
            d.update(kw)
            jobs.append(d)
    if tier == 'quick':
        add('cold', 4, report_pool=True)
        add('reversed', 3)
        add('shuffled', 3)
        add('longlived', 2)
        add('cachereset', 3, every=40)
        add('threads8', 3, warm=True)
        jobs.append({'name': 'thrimport-0', 'schedule': 'thrimport', 'shard': 0, 'shards': 4})
        for i in range(3):
            jobs.append({'name': 'yield4-%d' % i, 'schedule': 'yield4', 'shard': i, 'shards': 3, 'p': 0.02, 'threads': 4, 'rep': 0, 'weight': 5})
        for c in range(3):
            jobs.append({'name': 'vclock-%d' % c, 'schedule': 'vclock%d' % c, 'clock': c, 'shard': 0, 'shards': 1})
    else:
        add('cold', 8, report_pool=True)
        add('reversed', 4)
        add('shuffled', 4)
        add('longlived', 2)
        add('cachereset', 2)
        add('threads8', 2)
        add('threads16', 2)
        add('thrimport', 2)
        for rep in range(3):
            for p, nth, tag in ((0.02, 4, 'yield4'), (0.002, 8, 'yield8')):
                for i in range(8):
                    jobs.append({'name': '%s-r%d-%d' % (tag, rep, i), 'schedule': tag, 'shard': i, 'shards': 8, 'p': p, 'threads': nth, 'rep': rep, 'weight': 6})
        for c in range(3):
            for i in range(2):
                jobs.append({'name': 'vclock-%d-%d' % (c, i), 'schedule': 'vclock%d' % c, 'clock': c, 'shard': i, 'shards': 2})
    return jobs


def finish(agg, tier, seed):
    rows = agg.extra.get('obs', [])
    by = collections.defaultdict(list)
    for r in rows:
        by[r[0]].append(r)
    fails = []
    nontrivial = 0
    sched_seen = collections.Counter()
    pool = None
    for idx, rs in sorted(by.items()):
        hs = collections.OrderedDict()
        for r in rs:
            hs.setdefault(r[2], r)
            sched_seen[r[1]] += 1
        scheds = {r[1] for r in rs}
        if len(scheds) >= 2 and any(r[4] for r in rs):
            nontrivial += 1
        if len(hs) > 1:
            if pool is None:
                from rtmon import bootstrap
                bootstrap.install()
                pool = build_pool(seed, tier)
            vals = list(hs.values())
            base = vals[0]
            other = vals[1]
            t = pool[idx]
            mech = 'result-depends-on-schedule'
            threaded = {'threads8', 'threads16', 'thrimport', 'yield4', 'yield8'}
            groups = collections.defaultdict(set)
            for r in rs:
                groups[r[2]].add(r[1])
            # shape: which schedules / threads / precisions the minority value was seen under
            minority = min(groups.items(), key=lambda kv: len(kv[1]))
            minority_rows = [r for r in rs if r[2] == minority[0]]
            if all(r[5] != 'MainThread' for r in minority_rows) and all(r[5] == 'MainThread' or r[6] == base[6] for r in rs if r[2] != minority[0]) and {r[6] for r in minority_rows} != {r[6] for r in rs if r[2] != minority[0]}:
                mech = 'result-depends-on-thread-decimal-precision'
            elif minority[1] <= {'vclock0', 'vclock1', 'vclock2'} or (len(groups) > 1 and all(any(s.startswith('vclock') for s in g) for g in list(groups.values())[1:])):
                mech = 'result-depends-on-wall-clock'
            elif minority[1] <= threaded:
                mech = 'result-differs-under-threads'
            fails.append({'mech': mech, 'where': {'model': KINDS[t[0]][1], 'culture': t[1]}, 'key': json.dumps(t, ensure_ascii=False),
                          'case': {'kind': t[0], 'culture': t[1], 'options': t[2], 'query': t[3], 'reference': t[4]},
                          'expected': {'schedules': sorted(groups[base[2]]), 'value': base[3]},
                          'observed': {'schedules': sorted(groups[other[2]]), 'value': other[3], 'thread': other[5], 'decimal_prec': other[6]}})
    agg.nontrivial = set(range(nontrivial))
    samples = []
    for idx, rs in list(sorted(by.items()))[:3]:
        samples.append({'tuple_index': idx, 'observations': len(rs), 'schedules': sorted({r[1] for r in rs}), 'value': rs[0][3][:200]})
    agg.samples = samples
    inconc = []
    if len(by) < 50:
        inconc.append('only %d tuples were observed' % len(by))
    need = ['cold', 'threads8', 'yield4']
    for s in need:
        if not sched_seen.get(s):
            inconc.append('schedule %s observed nothing' % s)
    if agg.monitor_events.get('injected_yields', 0) == 0:
        inconc.append('the yield injector never fired')
    cov = {'tuples': len(by), 'observations': len(rows), 'observations_per_schedule': dict(sched_seen),
           'distinct_interleavings': len(set(agg.extra.get('interleaving_digests', []))), 'yield_points': len(set(agg.extra.get('yield_points', []))),
           'obs': None, 'yield_points_sample': sorted(set(agg.extra.get('yield_points', [])))[:15], 'interleaving_digests': None}
    return {'fails': fails, 'inconclusive': inconc, 'coverage': cov}


def replay_case(fail, ctx):
    c = fail['case']
    t = [c['kind'], c['culture'], c['options'], c['query'], c['reference']]
    caller = helpers()
    out = {}
    out['main'] = canon(caller(t))
    box = {}
    th = threading.Thread(target=lambda: box.setdefault('v', canon(caller(t))))
    th.start(); th.join()
    out['thread'] = box['v']
    ctx.observe(key=json.dumps(t))
    print('main thread :', out['main'][:300])
    print('other thread:', out['thread'][:300])
    if out['main'] != out['thread']:
        ctx.fail('result-depends-on-thread', fail.get('where', {}), fail.get('key'), c, out['main'][:300], out['thread'][:300])
