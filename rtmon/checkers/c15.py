"""C15 - TIMEX resolution and constraint solving only return correct, valid values.

Monitors: TimexResolver.resolve and TimexRangeResolver.evaluate are driven with generated
TIMEX sets; the oracle is stdlib calendar arithmetic (resolver) and brute force over the days
of the constraint window (range resolver).  A logical step counter on
TimexConstraintsHelper.inner_collapse turns a non-terminating collapse into an observation
(decided on steps, not on wall-clock time).
"""
import datetime as dt
import re
import signal

LEVEL = 'exploration'
RULE = ('resolver: weekday/duration/year/month/month-day/week/definite TIMEXes x reference dates 1950..2090 (calendar '
        'boundaries + seeded); range resolver: candidate sets of 1-3 (weekday, month-day, time, weekday+time, duration) x '
        '1-3 date-range constraints ((s,e,PnD), YYYY-MM, YYYY) and 0-2 time-range constraints inside a 2-year window. '
        'non-trivial = the call returned at least one value; distinct = distinct (timex set, constraints, reference).')
EXHAUSTIVE = False
JOB_TIMEOUT = 5400

D_RE = re.compile(r'^(\d{4})-(\d{2})-(\d{2})$')
T_RE = re.compile(r'^(\d{2}):(\d{2}):(\d{2})$')
DUR = {'Y': 31536000, 'M': 2592000, 'W': 604800, 'D': 86400}
TDUR = {'H': 3600, 'M': 60, 'S': 1}
POD = {'MO': (8, 12), 'AF': (12, 16), 'EV': (16, 20), 'DT': (8, 18), 'NI': (20, 24)}


class StepLimit(Exception):
    pass


class Watchdog(Exception):
    pass


def valid_date(s):
    m = D_RE.match(s or '')
    if not m:
        return None
    try:
        return dt.date(*map(int, m.groups()))
    except ValueError:
        return None


def valid_time(s):
    m = T_RE.match(s or '')
    if not m:
        return False
    h, mi, se = map(int, m.groups())
    return h < 24 and mi < 60 and se < 60


def refs(ctx, tier):
    r = ctx.rng('refs')
    out = [dt.datetime(2017, 9, 27), dt.datetime(2020, 2, 29), dt.datetime(2019, 12, 31, 23, 59, 59), dt.datetime(2021, 1, 1),
           dt.datetime(2016, 12, 31, 12), dt.datetime(1999, 12, 31), dt.datetime(2000, 1, 1), dt.datetime(2024, 12, 30),
           dt.datetime(2090, 12, 31), dt.datetime(1950, 1, 1)]
    n = 60 if tier == 'quick' else 1500
    for _ in range(n):
        out.append(dt.datetime(1950, 1, 1) + dt.timedelta(days=r.randrange(51500), seconds=r.choice([0, r.randrange(86400)])))
    return out


def iso(d):
    return '%04d-%02d-%02d' % (d.year, d.month, d.day)


def entries(res):
    return [{'timex': getattr(e, 'timex', None), 'type': getattr(e, 'type', None), 'value': getattr(e, 'value', None),
             'start': getattr(e, 'start', None), 'end': getattr(e, 'end', None)} for e in res.values]


def wellformed(ent):
    """generic shape check by declared type; returns problem string or None"""
    ty = ent['type']
    if ty == 'date':
        return None if valid_date(ent['value']) else 'invalid-date-value'
    if ty == 'time':
        return None if valid_time(ent['value']) else 'invalid-time-value'
    if ty == 'datetime':
        p = (ent['value'] or '').split(' ')
        return None if len(p) == 2 and valid_date(p[0]) and valid_time(p[1]) else 'invalid-datetime-value'
    if ty == 'duration':
        return None if re.fullmatch(r'\d+(\.\d+)?', str(ent['value'] or '')) else 'invalid-duration-value'
    if ty == 'daterange':
        if ent['value'] == 'not resolved':
            return None
        a, b = valid_date(ent['start']), valid_date(ent['end'])
        if not a or not b:
            return 'invalid-daterange-endpoint'
        return None if a < b else 'daterange-start-not-before-end'
    return None


def resolver_cases(ctx):
    tier = ctx.tier
    r = ctx.rng('resolver')
    for R in refs(ctx, tier):
        rs = R.isoformat()
        for dow in range(1, 8):
            yield {'kind': 'weekday', 'timex': 'XXXX-WXX-%d' % dow, 'reference': rs}
        for mo in range(1, 13):
            yield {'kind': 'month', 'timex': 'XXXX-%02d' % mo, 'reference': rs}
            for y in (R.year, r.randrange(1, 9999)):
                yield {'kind': 'year-month', 'timex': '%04d-%02d' % (y, mo), 'reference': rs}
        for y in (R.year, R.year + 1, r.randrange(1, 9999)):
            yield {'kind': 'year', 'timex': '%04d' % y, 'reference': rs}
        d = dt.date(1, 1, 1) + dt.timedelta(days=r.randrange(3652000))
        yield {'kind': 'definite', 'timex': iso(d), 'reference': rs}
        h, mi = r.randrange(24), r.choice([0, r.randrange(60)])
        yield {'kind': 'definite-time', 'timex': iso(d) + ('T%02d' % h if mi == 0 else 'T%02d:%02d' % (h, mi)), 'reference': rs, 'hm': [h, mi]}
        yield {'kind': 'time', 'timex': ('T%02d' % h if mi == 0 else 'T%02d:%02d' % (h, mi)), 'reference': rs, 'hm': [h, mi]}
        mo = r.randrange(1, 13); dd = r.randrange(1, 29)
        yield {'kind': 'month-day', 'timex': 'XXXX-%02d-%02d' % (mo, dd), 'reference': rs}
        y = r.randrange(1951, 2090); w = r.randrange(1, 53)
        yield {'kind': 'week', 'timex': '%04d-W%02d' % (y, w), 'reference': rs}
    amts = ['1', '2', '3', '10', '15', '60', '100', '365', '5000', '0.5', '1.5', '2.25'] + [str(r.randrange(1, 5000)) for _ in range(20 if tier == 'quick' else 300)]
    for a in amts:
        for u in DUR:
            yield {'kind': 'duration', 'timex': 'P%s%s' % (a, u), 'reference': '2017-09-27T00:00:00'}
        for u in TDUR:
            yield {'kind': 'duration', 'timex': 'PT%s%s' % (a, u), 'reference': '2017-09-27T00:00:00'}


def check_resolver(case, ctx):
    from datatypes_timex_expression import TimexResolver
    from decimal import Decimal
    R = dt.datetime.fromisoformat(case['reference'])
    D = R.date()
    tx, kind = case['timex'], case['kind']
    where = {'model': 'TimexResolver', 'kind': kind}
    key = 'res|%s|%s' % (tx, case['reference'])
    try:
        got = entries(TimexResolver.resolve([tx], R))
    except Exception as e:
        ctx.observe(key=key, cell='resolver:' + kind)
        ctx.fail('exception', where, key, case, None, repr(e))
        return
    ctx.observe(key=key, nontrivial=bool(got), cell='resolver:' + kind, sample={'timex': tx, 'reference': case['reference'], 'observed': got})
    for e in got:
        p = wellformed(e)
        if p:
            ctx.fail(p + ':' + kind, where, key, case, None, got)
            return
    exp = None
    if kind == 'weekday':
        dow = int(tx[-1])
        p = D - dt.timedelta(days=1)
        while p.isoweekday() != dow:
            p -= dt.timedelta(days=1)
        n = D + dt.timedelta(days=1)
        while n.isoweekday() != dow:
            n += dt.timedelta(days=1)
        exp = [('date', iso(p)), ('date', iso(n))]
        obs = [(e['type'], e['value']) for e in got]
    elif kind in ('year-month', 'month'):
        mo = int(tx[5:7])
        ys = [int(tx[:4])] if kind == 'year-month' else [R.year - 1, R.year]
        exp = []
        for y in ys:
            ny, nm = (y, mo + 1) if mo < 12 else (y + 1, 1)
            exp.append(('daterange', '%04d-%02d-01' % (y, mo), '%04d-%02d-01' % (ny, nm)))
        obs = [(e['type'], e['start'], e['end']) for e in got]
    elif kind == 'year':
        y = int(tx)
        exp = [('daterange', '%04d-01-01' % y, '%04d-01-01' % (y + 1))]
        obs = [(e['type'], e['start'], e['end']) for e in got]
    elif kind == 'duration':
        m = re.fullmatch(r'P(T?)([\d.]+)([YMWDHS])', tx)
        unit = (TDUR if m.group(1) else DUR)[m.group(3)]
        exp = [('duration', Decimal(m.group(2)) * unit)]
        try:
            obs = [(e['type'], Decimal(e['value'])) for e in got]
        except Exception:
            obs = [(e['type'], e['value']) for e in got]
    elif kind == 'definite':
        exp = [('date', tx)]
        obs = [(e['type'], e['value']) for e in got]
    elif kind == 'definite-time':
        h, mi = case['hm']
        exp = [('datetime', '%s %02d:%02d:00' % (tx[:10], h, mi))]
        obs = [(e['type'], e['value']) for e in got]
    elif kind == 'time':
        h, mi = case['hm']
        exp = [('time', '%02d:%02d:00' % (h, mi))]
        obs = [(e['type'], e['value']) for e in got]
    if exp is not None and obs != exp:
        ctx.fail('wrong-value:' + kind, where, key, case, [list(map(str, x)) for x in exp], got)
    if any(e['timex'] != tx for e in got):
        ctx.fail('timex-not-echoed:' + kind, where, key, case, tx, got)


# ---------------------------------------------------------------------------------- range resolver

def parse_constraint(c):
    """oracle-side reading of the constraint strings the generator itself produced"""
    m = re.fullmatch(r'\((\d{4}-\d{2}-\d{2}),(\d{4}-\d{2}-\d{2}),P\d+D\)', c)
    if m:
        return ('date', dt.date.fromisoformat(m.group(1)), dt.date.fromisoformat(m.group(2)))
    m = re.fullmatch(r'(\d{4})-(\d{2})', c)
    if m:
        y, mo = int(m.group(1)), int(m.group(2))
        ny, nm = (y, mo + 1) if mo < 12 else (y + 1, 1)
        return ('date', dt.date(y, mo, 1), dt.date(ny, nm, 1))
    m = re.fullmatch(r'(\d{4})', c)
    if m:
        y = int(c)
        return ('date', dt.date(y, 1, 1), dt.date(y + 1, 1, 1))
    m = re.fullmatch(r'\(T(\d{2}),T(\d{2}),PT\d+H\)', c)
    if m:
        return ('time', int(m.group(1)) * 3600, int(m.group(2)) * 3600)
    m = re.fullmatch(r'T(MO|AF|EV|DT|NI)', c)
    if m:
        a, b = POD[m.group(1)]
        return ('time', a * 3600, b * 3600)
    raise ValueError(c)


def parse_candidate(c):
    d = {}
    m = re.match(r'XXXX-WXX-(\d)', c)
    if m:
        d['dow'] = int(m.group(1))
    m = re.match(r'XXXX-(\d{2})-(\d{2})', c)
    if m:
        d['md'] = (int(m.group(1)), int(m.group(2)))
    m = re.search(r'T(\d{2})(?::(\d{2}))?$', c)
    if m:
        d['time'] = int(m.group(1)) * 3600 + int(m.group(2) or 0) * 60
    if c.startswith('P'):
        d['dur'] = True
    return d


def range_cases(ctx):
    r = ctx.rng('range')
    n = 2500 if ctx.tier == 'quick' else 60000
    for i in range(n):
        base = dt.date(1950, 1, 1) + dt.timedelta(days=r.randrange(50000))
        ncons = r.choice([1, 1, 1, 2, 2, 3])
        cons = []
        for _ in range(ncons):
            k = r.random()
            s = base + dt.timedelta(days=r.randrange(600))
            if k < 0.6:
                ln = r.randrange(1, 121)
                cons.append('(%s,%s,P%dD)' % (iso(s), iso(s + dt.timedelta(days=ln)), ln))
            elif k < 0.9:
                cons.append('%04d-%02d' % (s.year, s.month))
            else:
                cons.append('%04d' % s.year)
        tcons = []
        for _ in range(r.choice([0, 0, 0, 1, 1, 2])):
            if r.random() < 0.5:
                h1 = r.randrange(0, 23); h2 = r.randrange(h1 + 1, 24)
                tcons.append('(T%02d,T%02d,PT%dH)' % (h1, h2, h2 - h1))
            else:
                tcons.append('T' + r.choice(['MO', 'AF', 'EV', 'DT', 'NI']))
        cands = []
        shape = r.choice(['weekday', 'weekday', 'monthday', 'mixed', 'mixed', 'withtime', 'withdur'])
        for _ in range(r.choice([1, 1, 2, 3])):
            if shape == 'weekday':
                cands.append('XXXX-WXX-%d' % r.randrange(1, 8))
            elif shape == 'monthday':
                cands.append('XXXX-%02d-%02d' % (r.randrange(1, 13), r.randrange(1, 29)))
            else:
                c = 'XXXX-WXX-%d' % r.randrange(1, 8) if r.random() < 0.5 else 'XXXX-%02d-%02d' % (r.randrange(1, 13), r.randrange(1, 29))
                if shape == 'withtime' or (shape == 'mixed' and r.random() < 0.3):
                    c += 'T%02d' % r.randrange(24) + r.choice(['', '', ':30', ':15'])
                cands.append(c)
        if shape == 'withdur':
            cands.append(r.choice(['PT2H', 'P3D', 'PT30M']))
        single = (ncons == 1 and len(cands) == 1 and shape == 'weekday' and not tcons)
        yield {'kind': 'evaluate', 'candidates': cands, 'constraints': cons + tcons, 'single': single, 'shape': shape}


def check_range(case, ctx):
    from datatypes_timex_expression import TimexRangeResolver
    where = {'model': 'TimexRangeResolver', 'shape': case['shape']}
    key = 'eval|%s|%s' % (','.join(case['candidates']), ','.join(case['constraints']))
    STEPS[0] = 0
    try:
        signal.alarm(20)
        try:
            res = TimexRangeResolver.evaluate(list(case['candidates']), list(case['constraints']))
        finally:
            signal.alarm(0)
        got = [t.timex_value() for t in res]
    except StepLimit:
        ctx.observe(key=key, nontrivial=False, cell='evaluate:' + case['shape'])
        ctx.fail('collapse-nontermination', where, key, case, 'evaluate returns', 'TimexConstraintsHelper.collapse exceeded %d inner_collapse steps on %d constraints' % (STEP_CAP, len(case['constraints'])))
        return
    except Watchdog:
        ctx.timeouts.append({'case': case})
        return
    except Exception as e:
        ctx.observe(key=key, nontrivial=False, cell='evaluate:' + case['shape'])
        ctx.fail('exception', where, key, case, None, repr(e))
        return
    ctx.observe(key=key, nontrivial=bool(got), cell='evaluate:' + case['shape'],
                sample={'candidates': case['candidates'], 'constraints': case['constraints'], 'observed': got[:8]})
    cons = [parse_constraint(c) for c in case['constraints']]
    dcons = [(a, b) for k, a, b in cons if k == 'date']
    tcons = [(a, b) for k, a, b in cons if k == 'time']
    cands = [parse_candidate(c) for c in case['candidates']]
    for g in got:
        m = re.fullmatch(r'(\d{4})-(\d{2})-(\d{2})(?:T(\d{2})(?::(\d{2}))?(?::(\d{2}))?)?', g)
        d = None
        if m:
            try:
                d = dt.date(int(m.group(1)), int(m.group(2)), int(m.group(3)))
            except ValueError:
                d = None
        if d is None:
            ctx.fail('result-not-definite', where, key, case, 'definite TIMEX', got[:10])
            return
        t = None if m.group(4) is None else int(m.group(4)) * 3600 + int(m.group(5) or 0) * 60 + int(m.group(6) or 0)
        inst = False
        for c in cands:
            if c.get('dur'):
                continue
            okd = ('dow' in c and d.isoweekday() == c['dow']) or ('md' in c and (d.month, d.day) == c['md'])
            # a candidate without a time does not constrain the time of its instances (the solver stamps the
            # start of a supplied time constraint on them); a candidate with a time fixes it
            okt = ('time' not in c) or (t == c['time'])
            if okd and okt:
                inst = True
        if not inst:
            ctx.fail('result-not-instance-of-candidate', where, key, case, case['candidates'], got[:10])
            return
        if not any(a <= d < b for a, b in dcons):
            ctx.fail('result-outside-date-constraints', where, key, case, case['constraints'], got[:10])
            return
        if tcons and (t is None or not any(a <= t < b for a, b in tcons)):
            ctx.fail('result-outside-time-constraints', where, key, case, case['constraints'], got[:10])
            return
    if case['single']:
        (a, b), = dcons
        dow = cands[0]['dow']
        exp = []
        x = a
        while x < b:
            if x.isoweekday() == dow:
                exp.append(iso(x))
            x += dt.timedelta(days=1)
        if sorted(got) != exp:
            ctx.fail('single-range-weekday-incomplete', where, key, case, exp, got)


STEPS = [0]
STEP_CAP = 2000


def install_monitors():
    from datatypes_timex_expression.timex_constraints_helper import TimexConstraintsHelper
    orig = TimexConstraintsHelper.inner_collapse
    if getattr(orig, '_rt', False):
        return

    def inner(self, ranges):
        STEPS[0] += 1
        if STEPS[0] > STEP_CAP:
            raise StepLimit()
        return orig(self, ranges)
    inner._rt = True
    TimexConstraintsHelper.inner_collapse = inner

    def on_alarm(sig, frm):
        raise Watchdog()
    signal.signal(signal.SIGALRM, on_alarm)


def plan(tier, seed):
    jobs = [{'name': 'resolver', 'part': 'resolver'}]
    n = 4 if tier == 'quick' else 16
    for i in range(n):
        jobs.append({'name': 'range%d' % i, 'part': 'range', 'shard': i, 'shards': n})
    return jobs


def run(job, ctx):
    install_monitors()
    if job['part'] == 'resolver':
        for case in resolver_cases(ctx):
            check_resolver(case, ctx)
    else:
        for i, case in enumerate(range_cases(ctx)):
            if i % job['shards'] == job['shard']:
                check_range(case, ctx)
    ctx.event('inner_collapse_steps', STEPS[0])


def replay_case(fail, ctx):
    install_monitors()
    case = fail['case']
    if case.get('kind') == 'evaluate':
        check_range(case, ctx)
    else:
        check_resolver(case, ctx)
