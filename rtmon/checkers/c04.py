"""C04 - spelled-out cardinals and ordinals resolve to the integer they denote.

Independent numeral grammars (rtmon/numerals.py) spell n; the monitor at the NumberModel / OrdinalModel boundary
checks: one entity covering the phrase, value == str(n).
"""
LEVEL = 'exploration'
RULE = ('n -> standard written-out form from an independent grammar per language. en-us: cardinals with/without "and", hyphenated/spaced tens, '
        'alone and in a carrier sentence, and ordinals; exhaustive 0..9999 (thorough) / 0..1200 (quick), every 10^k and 10^k+-1 up to 10^15, seeded '
        'sampling above. es-es, fr-fr, pt-br, de-de, it-it, nl-nl: dictionary form, exhaustive 0..2000 (quick 0..300) + round numbers + seeded up to '
        '999 999 (de-de and nl-nl also ordinals); zh-cn, ja-jp: up to 10^12. non-trivial = the model returned an entity; distinct = distinct (culture, model, phrase).')
EXHAUSTIVE = False
JOB_TIMEOUT = 5400
CARRIER = {'en-us': 'I have {} apples'}


def numbers(r, cu, tier, limit):
    small = 1200 if cu == 'en-us' else 300
    if tier == 'thorough':
        small = 10000 if cu == 'en-us' else 2000
    ns = list(range(0, small))
    k = 3
    while 10 ** k < limit:
        ns += [10 ** k - 1, 10 ** k, 10 ** k + 1, 2 * 10 ** k, 10 ** k + 10 ** (k - 1)]
        k += 1
    n_rand = 700 if tier == 'quick' else 6000
    for _ in range(n_rand):
        e = r.randrange(3, len(str(limit - 1)) + 1)
        ns.append(r.randrange(10 ** (e - 1), min(limit, 10 ** e)))
    for _ in range(n_rand // 3):
        ns.append(r.randrange(1000, min(limit, 10 ** 6)))
    out, seen = [], set()
    for n in ns:
        if n < limit and n not in seen:
            seen.add(n)
            out.append(n)
    return out


def check(m, cu, mt, q, st, en, n, variant, ctx):
    from rtmon import lib
    where = {'model': mt, 'culture': cu, 'magnitude': mag(n)}
    case = {'culture': cu, 'model': mt, 'query': q, 'span': [st, en], 'n': n, 'variant': variant}
    key = '%s|%s|%s' % (cu, mt, q)
    lib.take_swallowed()
    try:
        r = m.parse(q)
    except Exception as e:
        ctx.observe(key=key, cell='%s:%s' % (cu, mt))
        ctx.fail('exception', where, key, case, str(n), repr(e))
        return
    obs = [lib.ent(e) for e in r]
    ctx.event('boundary_calls')
    ctx.observe(key=key, nontrivial=bool(r), cell='%s:%s' % (cu, mt), sample={'culture': cu, 'model': mt, 'query': q, 'n': n, 'observed': obs})
    mech = None
    if not r:
        mech = 'numeral-missed'
    elif any(e is None for e in r):
        mech = 'none-entity'
    elif len(r) > 1:
        mech = 'numeral-split'
    else:
        e = r[0]
        if (e.start, e.end) != (st, en):
            mech = 'numeral-wrong-span'
        elif (e.resolution or {}).get('value') != str(n):
            mech = 'numeral-wrong-value'
    if mech:
        mech = refine(mech, cu, mt, n, q, st, en, r)
        ctx.fail(mech, where, key, case, {'span': [st, en], 'value': str(n)}, {'entities': obs, 'swallowed': lib.take_swallowed()})


def refine(mech, cu, mt, n, q, st, en, r):
    """shape of the wrong output (for the known-finding classifier); falls back to the generic mechanism"""
    ents = [e for e in r if e is not None]
    one = ents[0] if len(ents) == 1 and len(r) == 1 else None
    val = None
    if one is not None:
        try:
            val = int((one.resolution or {}).get('value'))
        except (TypeError, ValueError):
            val = None
    hd = (n % 1000) // 100
    if mt == 'OrdinalModel' and one is not None and one.end == en and one.start > st and val is not None:
        if any(n % 10 ** k == val and n >= 10 ** k for k in (2, 3, 6, 9, 12)):
            return 'ordinal-covers-only-trailing-groups'
    if cu in ('fr-fr', 'it-it', 'nl-nl') and one is not None and (one.start, one.end) == (st, en) and val is not None:
        if n // 1000 == 1 and n % 1000 >= 100 and val == 100000 + n % 1000 - (100 if hd == 1 else 0):
            return 'bare-thousand-multiplies-following-hundred'
        if n >= 2000 and hd == 1 and val == n - 100:
            return 'bare-hundred-after-thousands-dropped'
    if cu == 'fr-fr' and one is not None and one.start == st and one.end < en and q[one.end + 1:en + 1].strip() == 'cents':
        return 'fr-plural-cents-cut-off'
    if cu == 'de-de' and mt == 'OrdinalModel' and not r and (n % 100) // 10 == 4:
        return 'de-ordinal-in-the-forties-not-recognised'
    if cu == 'it-it' and not r and q[st:en + 1].endswith('tré'):
        return 'it-final-accented-tre-not-recognised'
    if cu == 'ja-jp':
        import re
        from rtmon import numerals
        phrase = q[st:en + 1]
        zh = numerals.chinese(n)[0][1].replace('亿', '億')
        # the Japanese model reads numerals with the Chinese conventions: it copes only with phrases that are spelled the same
        # way in both languages (every unit carries its digit, no skipped unit) and that contain no 十万 / 百万 / 千万 / x億 compound
        if phrase != zh or re.search('[十百千][万億]', phrase):
            return 'ja-form-outside-the-chinese-style-subset'
    return mech


def mag(n):
    return '<10^3' if n < 1000 else '<10^6' if n < 10 ** 6 else '<10^9' if n < 10 ** 9 else '>=10^9'


def run(job, ctx):
    from rtmon import lib, numerals
    cu = job['culture']
    f, limit = numerals.LANGS[cu]
    nm = lib.model('NumberRecognizer', 'NumberModel', cu)
    r = ctx.rng('numbers:' + cu)
    ns = numbers(r, cu, ctx.tier, limit)
    for i, n in enumerate(ns):
        if i % job['shards'] != job['shard']:
            continue
        for variant, s in f(n):
            check(nm, cu, 'NumberModel', s, 0, len(s) - 1, n, variant, ctx)
            if cu in CARRIER and i % 3 == 0:
                q = CARRIER[cu].format(s)
                st = q.index(s)
                check(nm, cu, 'NumberModel', q, st, st + len(s) - 1, n, variant + ',carrier', ctx)
        if cu == 'en-us' and n > 0:
            om = lib.model('NumberRecognizer', 'OrdinalModel', cu)
            for variant, s in numerals.english_ordinal(n):
                check(om, cu, 'OrdinalModel', s, 0, len(s) - 1, n, 'ordinal,' + variant, ctx)
        if cu in numerals.ORDINALS and 0 < n < 10 ** 6:
            om = lib.model('NumberRecognizer', 'OrdinalModel', cu)
            for variant, s in numerals.ORDINALS[cu](n):
                check(om, cu, 'OrdinalModel', s, 0, len(s) - 1, n, 'ordinal,' + variant, ctx)


def plan(tier, seed):
    from rtmon import numerals
    jobs = []
    for cu in numerals.LANGS:
        sh = (4 if cu == 'en-us' else 1) if tier == 'quick' else (12 if cu == 'en-us' else 3)
        for s in range(sh):
            jobs.append({'name': '%s-%d' % (cu, s), 'culture': cu, 'shard': s, 'shards': sh})
    return jobs


def replay_case(fail, ctx):
    from rtmon import lib
    c = fail['case']
    m = lib.model('NumberRecognizer', c['model'], c['culture'])
    check(m, c['culture'], c['model'], c['query'], c['span'][0], c['span'][1], c['n'], c['variant'], ctx)
