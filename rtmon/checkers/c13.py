"""C13 - IP addresses, GUIDs and other sequence entities: sound and complete recognition.

Generators carry the address/GUID/string; the monitor at the model boundary compares with
stdlib oracles (ipaddress, uuid).  Soundness is also applied to everything the IP model
reports on near-miss and noise inputs: the resolved value must parse as an address and denote
the same address as the reported text.
"""
import ipaddress
import itertools
import string
import uuid

LEVEL = 'exploration'
RULE = ('IPv4: full product of the ten boundary octets {0,9,10,99,100,199,200,249,250,255}^4 (thorough; seeded 12% sample in '
        'quick) + seeded 2^32 sample, zero-padded spellings; IPv6: random 128-bit with random zero runs, compressed/exploded/'
        'upper-case; near misses (octet 256-999, 5 groups, 9 hextets, trailing/leading junk); GUID: random 128-bit x {plain, '
        'braced, upper, undashed}; e-mail/URL(listed TLD)/hashtag/mention/phone from small grammars; each x carrier sentences. '
        'non-trivial = the model returned at least one entity; distinct = distinct (model, query).')
EXHAUSTIVE = {'quick': False, 'thorough': False}
JOB_TIMEOUT = 5400

B = [0, 9, 10, 99, 100, 199, 200, 249, 250, 255]
IP_CARRIERS = ['{}', 'my address is {} ok', 'ip {}', '({})', '{}, thanks', 'ping {} now']
L = string.ascii_lowercase
LD = L + string.digits


def seq_model(name):
    from rtmon import lib
    return lib.model('SequenceRecognizer', name, 'en-us')


def view(r):
    from rtmon import lib
    return [lib.ent(e) for e in r]


def canon_ip_text(t):
    """what the text denotes: strip leading zeros per group (ipaddress itself rejects them for IPv4)"""
    t = t.strip()
    if ':' in t:
        return ipaddress.ip_address(t)
    return ipaddress.ip_address('.'.join(str(int(g)) for g in t.split('.')))


def ip_sound(m, q, ctx, cls, where):
    """soundness of everything reported for q; returns the entities"""
    key = 'ip|' + q
    try:
        r = m.parse(q)
    except Exception as e:
        ctx.observe(key=key, cell=cls)
        ctx.fail('exception', where, key, {'model': 'IpAddressModel', 'query': q, 'cls': cls}, None, repr(e))
        return None
    ctx.event('boundary_calls')
    for e in r:
        ok = True
        why = ''
        try:
            v = ipaddress.ip_address(e.resolution['value'])
        except Exception:
            ok, why = False, 'value-not-an-address'
        if ok:
            if not (0 <= e.start <= e.end < len(q)) or q[e.start:e.end + 1].strip() != e.text:
                ok, why = False, 'span-text-mismatch'
        if ok:
            try:
                if canon_ip_text(e.text) != v:
                    ok, why = False, 'value-denotes-other-address'
            except Exception:
                ok, why = False, 'reported-text-not-an-address'
        if not ok:
            ctx.fail('ip-unsound:' + why, where, key, {'model': 'IpAddressModel', 'query': q, 'cls': cls}, None, view(r))
            return None
    return r


def ip_complete(m, s, addr, ctx, cls, carriers=IP_CARRIERS):
    where = {'model': 'IpAddressModel', 'culture': 'en-us', 'cls': cls}
    for c in carriers:
        q = c.format(s)
        st = q.index(s)
        r = ip_sound(m, q, ctx, cls, where)
        if r is None:
            continue
        ctx.observe(key='ip|' + q, nontrivial=bool(r), cell=cls, sample={'query': q, 'observed': view(r)})
        ok = len(r) == 1 and r[0].start == st and r[0].end == st + len(s) - 1 and r[0].type_name == 'ip'
        if ok:
            ok = ipaddress.ip_address(r[0].resolution['value']) == addr
        if not ok:
            mech = 'ip-missed' if not r else 'ip-split' if len(r) > 1 else 'ip-wrong-span-or-value'
            ctx.fail(mech + ':' + cls.split('-')[0], where, 'ip|' + q, {'model': 'IpAddressModel', 'query': q, 'cls': cls, 'expr': s},
                     {'span': [st, st + len(s) - 1], 'address': str(addr)}, view(r))


def run_ip(job, ctx):
    m = seq_model('IpAddressModel')
    r = ctx.rng('ip:%s' % job['part'])
    part = job['part']
    if part == 'v4-boundary':
        frac = 0.12 if ctx.tier == 'quick' else 1.0
        for i, (a, b, c, d) in enumerate(itertools.product(B, repeat=4)):
            if i % job['shards'] != job['shard']:
                continue
            if frac < 1 and r.random() > frac:
                continue
            s = '%d.%d.%d.%d' % (a, b, c, d)
            ip_complete(m, s, ipaddress.ip_address(s), ctx, 'ipv4-boundary', IP_CARRIERS if frac < 1 else IP_CARRIERS[:3])
    elif part == 'v4-random':
        n = 1500 if ctx.tier == 'quick' else 30000
        for _ in range(n):
            v = r.getrandbits(32)
            if r.random() < 0.3:       # bias towards small / edge octets
                v = int.from_bytes(bytes(r.choice(B + list(range(0, 12)) + list(range(245, 256))) for _ in range(4)), 'big')
            a = ipaddress.IPv4Address(v)
            ip_complete(m, str(a), a, ctx, 'ipv4-random', r.sample(IP_CARRIERS, 2))
            if r.random() < 0.25:
                padded = '.'.join(g.zfill(r.choice([2, 3])) if len(g) < 3 else g for g in str(a).split('.'))
                if all(len(g) <= 3 for g in padded.split('.')):
                    ip_complete(m, padded, a, ctx, 'ipv4-zero-padded', ['{}', 'ip {}'])
    elif part == 'v6':
        n = 700 if ctx.tier == 'quick' else 15000
        # addresses without any decimal digit, the extremes, and texts that contain no digit at all
        for sp in ('::', '::1', 'ffff:ffff:ffff:ffff:ffff:ffff:ffff:ffff', 'dead:beef::cafe', 'ff::a', '::ffff', 'fe::', 'DEAD:BEEF::CAFE', 'abcd:ef::', '::face', 'a::b', '0::0',
                   '0:0:0:0:0:0:0:0', '1::', 'fe80::1'):
            ip_complete(m, sp, ipaddress.ip_address(sp), ctx, 'ipv6-special', ['{}', 'my address is {} ok', 'ping {} now', '({})'])
        for _ in range(n):
            hs = [r.getrandbits(16) for _ in range(8)]
            k = r.random()
            if k < 0.7:
                i0 = r.randrange(8); ln = r.randrange(1, 8 - i0 + 1)
                for i in range(i0, i0 + ln):
                    hs[i] = 0
            for i in range(8):
                if r.random() < 0.2:
                    hs[i] = r.choice([0, 1, 0xf, 0x10, 0xff, 0x100, 0xfff, 0x1000, 0xffff])
            a = ipaddress.IPv6Address(':'.join('%x' % h for h in hs))
            cs = r.sample(IP_CARRIERS, 2)
            ip_complete(m, a.compressed, a, ctx, 'ipv6-compressed', cs)
            ip_complete(m, a.exploded, a, ctx, 'ipv6-exploded', cs)
            ip_complete(m, a.compressed.upper(), a, ctx, 'ipv6-upper', cs)
            ip_complete(m, ':'.join('%x' % h for h in hs), a, ctx, 'ipv6-full-unpadded', cs[:1])
    elif part == 'nearmiss':
        where = {'model': 'IpAddressModel', 'culture': 'en-us', 'cls': 'nearmiss'}
        n = 800 if ctx.tier == 'quick' else 15000
        for _ in range(n):
            o = [r.randrange(256) for _ in range(4)]
            i = r.randrange(4); o[i] = r.randrange(256, 1000)
            s = '.'.join(map(str, o))
            kinds = [('octet>255', s)]
            o5 = '.'.join(str(r.randrange(256)) for _ in range(5))
            kinds.append(('five-groups', o5))
            h9 = ':'.join('%x' % r.getrandbits(16) for _ in range(9))
            kinds.append(('nine-hextets', h9))
            kinds.append(('long-hextet', ':'.join('%x' % r.getrandbits(16) for _ in range(7)) + ':%x' % r.randrange(0x10000, 0xfffff)))
            kinds.append(('glued-digits', '%s%d' % (ipaddress.IPv4Address(r.getrandbits(32)), r.randrange(10))))
            for kind, s in kinds:
                q = 'x %s y' % s
                res = ip_sound(m, q, ctx, 'nearmiss:' + kind, where)
                if res is None:
                    continue
                ctx.observe(key='ip|' + q, nontrivial=bool(res), cell='nearmiss:' + kind, sample={'query': q, 'observed': view(res)})
                if kind == 'octet>255' and res:
                    # a token none of whose 4-group readings is valid must report nothing at all
                    ctx.fail('ip-reported-on-invalid-token', where, 'ip|' + q, {'model': 'IpAddressModel', 'query': q, 'cls': kind}, [], view(res))


def exact(model_name, type_name, s, ctx, cls, carriers, value=None, loose=False):
    m = seq_model(model_name)
    where = {'model': model_name, 'culture': 'en-us', 'cls': cls}
    for c in carriers:
        q = c.format(s)
        st = q.index(s)
        key = '%s|%s' % (model_name, q)
        try:
            r = m.parse(q)
        except Exception as e:
            ctx.observe(key=key, cell=cls)
            ctx.fail('exception', where, key, {'model': model_name, 'query': q, 'cls': cls, 'expr': s}, None, repr(e))
            continue
        ctx.event('boundary_calls')
        ctx.observe(key=key, nontrivial=bool(r), cell=cls, sample={'query': q, 'observed': view(r)})
        want = value if value is not None else s
        ok = (len(r) == 1 and r[0].type_name == type_name and r[0].resolution.get('value') == want and r[0].text == want)
        if ok and loose:
            # phone formats whose regex also swallows the blank before them: the span may start on that blank
            ok = 0 <= r[0].start <= st and r[0].end == st + len(s) - 1 and q[r[0].start:r[0].end + 1].strip() == s
        elif ok:
            ok = r[0].start == st and r[0].end == st + len(s) - 1
        if not ok:
            mech = 'missed' if not r else 'split' if len(r) > 1 else 'wrong-span-or-value'
            ctx.fail('%s-%s' % (cls.split(' ')[0], mech), where, key, {'model': model_name, 'query': q, 'cls': cls, 'expr': s},
                     {'span': [st, st + len(s) - 1], 'value': want}, view(r))


def w(r, a, n1, n2):
    return ''.join(r.choice(a) for _ in range(r.randrange(n1, n2)))


def run_guid(job, ctx):
    r = ctx.rng('guid')
    n = 500 if ctx.tier == 'quick' else 12000
    for _ in range(n):
        u = uuid.UUID(int=r.getrandbits(128))
        for cls, s in (('guid-plain', str(u)), ('guid-braced', '{' + str(u) + '}'), ('guid-upper', str(u).upper()), ('guid-undashed', u.hex)):
            exact('GUIDModel', 'guid', s, ctx, cls, r.sample(['{}', 'my address is {} ok', 'id {}', '{}, thanks'], 2), value=s.lower())


def run_other(job, ctx):
    from recognizers_sequence.resources.base_url import BaseURL
    r = ctx.rng('other')
    tlds = sorted(t for t in BaseURL.TldList if t.isalpha() and t.isascii())
    n = 300 if ctx.tier == 'quick' else 6000
    for _ in range(n):
        local = w(r, L, 1, 2) + w(r, LD + '._-+', 0, 8) + w(r, LD, 1, 2)
        dom = w(r, LD, 1, 8) + r.choice(['', '.' + w(r, L, 2, 6), '-' + w(r, LD, 1, 4)])
        tld = r.choice(['com', 'org', 'net', 'io', 'co.uk', 'edu', 'de', 'info'])
        exact('EmailModel', 'email', '%s@%s.%s' % (local, dom, tld), ctx, 'email', ['{}', 'please use {} ok', '({})', '{} .'])
        host = w(r, L, 1, 2) + w(r, LD + '-', 0, 10) + w(r, LD, 1, 2)
        t = r.choice(tlds)
        path = r.choice(['', '/', '/' + w(r, LD, 1, 8), '/' + w(r, LD, 1, 5) + '/' + w(r, LD, 1, 5) + '.html', '/?q=' + w(r, LD, 1, 5)])
        for pre in ('http://', 'https://', 'www.', 'https://www.', ''):
            exact('URLModel', 'url', '%s%s.%s%s' % (pre, host, t, path), ctx, 'url ' + (pre or 'bare'), ['{}', 'please use {} ok', 'go to {}'])
        tag = w(r, L + string.ascii_uppercase + string.digits + '_', 1, 15)
        exact('HashtagModel', 'hashtag', '#' + tag, ctx, 'hashtag', ['{}', 'nice tag {} ok', 'love {}'], value=('#' + tag).lower())
        exact('MentionModel', 'mention', '@' + tag, ctx, 'mention', ['{}', 'hi {} ok', 'cc {}'], value=('@' + tag).lower())
        a, b, c = r.randrange(200, 1000), r.randrange(200, 1000), r.randrange(0, 10000)
        for cls, s in (('phone us-dash', '%d-%d-%04d' % (a, b, c)), ('phone us-paren', '(%d) %d-%04d' % (a, b, c)),
                       ('phone +1', '+1 %d-%d-%04d' % (a, b, c)), ('phone dots', '%d.%d.%04d' % (a, b, c)),
                       ('phone intl', '+44 20 %d %d' % (r.randrange(1000, 10000), r.randrange(1000, 10000)))):
            exact('PhoneNumberModel', 'phonenumber', s, ctx, cls, ['{}', 'my number is {}', 'call {} now'])
        for cls, s in (('phone uk-trunk', '(0) %09d' % r.randrange(100000000, 999999999)), ('phone uk-trunk-glued', '(0)%010d' % r.randrange(1000000000, 9999999999))):
            exact('PhoneNumberModel', 'phonenumber', s, ctx, cls, ['{}', 'my number is {}', 'call  {}  now', 'tel:\t{}'], loose=True)


PAIR_JOINS = ['ping {a} first, then {b} again', '{a} and {b}', 'hosts {a} , {b}', '{a} {b}']


def run_pairs(job, ctx):
    """two entities of one type in one query - the same expression twice, one a prefix / suffix of the other, the short IPv6 forms after a
    long one: two entities, each on its own occurrence"""
    r = ctx.rng('pairs')
    n = 250 if ctx.tier == 'quick' else 5000

    def two(model_name, type_name, a, b, cls, values=None):
        m = seq_model(model_name)
        where = {'model': model_name, 'culture': 'en-us', 'cls': cls}
        for t in r.sample(PAIR_JOINS, 2):
            q = t.format(a=a, b=b)
            sa = len(t[:t.index('{a}')].format(a=a, b=b))
            sb = len(t[:t.index('{b}')].format(a=a, b=b))
            key = '%s|%s' % (model_name, q)
            try:
                res = m.parse(q)
            except Exception as e:
                ctx.observe(key=key, cell=cls)
                ctx.fail('exception', where, key, {'model': model_name, 'query': q, 'cls': cls}, None, repr(e))
                continue
            ctx.event('boundary_calls')
            ctx.observe(key=key, nontrivial=len(res) >= 2, cell=cls, sample={'query': q, 'observed': view(res)})
            want = [[sa, sa + len(a) - 1], [sb, sb + len(b) - 1]]
            got = sorted([e.start, e.end] for e in res if e is not None)
            ok = got == want and all(e.type_name == type_name for e in res)
            if ok and values:
                by = {e.start: e for e in res}
                ok = all(values[i](by[want[i][0]]) for i in (0, 1))
            if not ok:
                ctx.fail('pair-not-two-entities-on-their-own-occurrences', where, key, {'model': model_name, 'query': q, 'cls': cls, 'a': a, 'b': b}, {'spans': want}, view(res))

    def ipval(addr):
        return lambda e: ipaddress.ip_address(e.resolution['value']) == ipaddress.ip_address(addr)
    for _ in range(n):
        v4 = str(ipaddress.IPv4Address(r.getrandbits(32)))
        v4b = str(ipaddress.IPv4Address(r.getrandbits(32)))
        shorter = v4[:-1] if v4[-2] != '.' and len(v4.split('.')[-1]) > 1 else v4
        hs = [r.getrandbits(16) for _ in range(8)]
        i0 = r.randrange(1, 6)
        for i in range(i0, i0 + 2):
            hs[i] = 0
        v6 = ipaddress.IPv6Address(':'.join('%x' % h for h in hs)).compressed
        for a, b, cls in ((v4, v4, 'pair-ip-same'), (v4, v4b, 'pair-ip-random'), (v4, shorter, 'pair-ip-prefix'), (shorter, v4, 'pair-ip-prefix-first'),
                          (v6, v6, 'pair-ipv6-same'), ('fe80::%x' % r.randrange(1, 0xffff), '::1', 'pair-ipv6-short-after-long'), (v6, '::', 'pair-ipv6-unspecified-after-long'),
                          (v6, v4, 'pair-ip-mixed')):
            two('IpAddressModel', 'ip', a, b, cls, [ipval(a), ipval(b)])
        u = str(uuid.UUID(int=r.getrandbits(128)))
        two('GUIDModel', 'guid', u, u, 'pair-guid-same')
        tag = w(r, L, 2, 8)
        two('HashtagModel', 'hashtag', '#' + tag, '#' + tag, 'pair-hashtag-same')
        two('HashtagModel', 'hashtag', '#' + tag + 'x', '#' + tag, 'pair-hashtag-prefix')
        two('MentionModel', 'mention', '@' + tag, '@' + tag, 'pair-mention-same')
        mail = '%s@%s.com' % (w(r, L, 2, 6), w(r, L, 2, 6))
        two('EmailModel', 'email', mail, mail, 'pair-email-same')
        a3, b3, c4 = r.randrange(200, 1000), r.randrange(200, 1000), r.randrange(0, 10000)
        ph = '%d-%d-%04d' % (a3, b3, c4)
        two('PhoneNumberModel', 'phonenumber', ph, ph, 'pair-phone-same')
        url = 'www.%s.com' % w(r, L, 3, 8)
        two('URLModel', 'url', url, url, 'pair-url-same')


def plan(tier, seed):
    jobs = []
    sh = 2 if tier == 'quick' else 6
    for s in range(sh):
        jobs.append({'name': 'v4b%d' % s, 'kind': 'ip', 'part': 'v4-boundary', 'shard': s, 'shards': sh})
    for p in ('v4-random', 'v6', 'nearmiss'):
        jobs.append({'name': p, 'kind': 'ip', 'part': p})
    jobs.append({'name': 'guid', 'kind': 'guid'})
    jobs.append({'name': 'other', 'kind': 'other', 'weight': 3})
    jobs.append({'name': 'pairs', 'kind': 'pairs', 'weight': 2})
    return jobs


def run(job, ctx):
    {'ip': run_ip, 'guid': run_guid, 'other': run_other, 'pairs': run_pairs}[job['kind']](job, ctx)


def replay_case(fail, ctx):
    c = fail['case']
    mn = c['model']
    q = c['query']
    if mn == 'IpAddressModel':
        m = seq_model(mn)
        r = ip_sound(m, q, ctx, c.get('cls', ''), fail.get('where', {}))
        if r is not None and fail.get('expected') and isinstance(fail['expected'], dict):
            st, en = fail['expected']['span']
            ip_complete(m, q[st:en + 1], ipaddress.ip_address(fail['expected']['address']), ctx, c.get('cls', 'replay'), ['{}'])
        elif r is not None and fail['mech'] == 'ip-reported-on-invalid-token' and r:
            ctx.fail(fail['mech'], fail.get('where', {}), 'ip|' + q, c, [], view(r))
    else:
        st, en = fail['expected']['span']
        tn = {'GUIDModel': 'guid', 'EmailModel': 'email', 'URLModel': 'url', 'HashtagModel': 'hashtag', 'MentionModel': 'mention', 'PhoneNumberModel': 'phonenumber'}[mn]
        m = seq_model(mn)
        r = m.parse(q)
        ctx.observe(key=q)
        ok = len(r) == 1 and r[0].start == st and r[0].end == en and r[0].resolution.get('value') == fail['expected']['value']
        if not ok:
            ctx.fail(fail['mech'], fail.get('where', {}), q, c, fail['expected'], view(r))
