"""C05 - every listed unit spelling maps to its canonical unit and keeps the number.

Exhaustive walk of the prefix/suffix tables WIRED INTO each live NumberWithUnit model (read from the model's first
extractor/parser pair at run time, not from resource files).  For every (unit, spelling): numerals x templates
(with/without separating blank); the entry passes if one template yields exactly one entity spanning the whole
query whose value equals what the culture's number model gives for the numeral alone and whose unit is one of the
units that list this spelling; for currencies isoCurrency == CurrencyNameToIsoCodeMap[unit] unless the code is a
'_'-prefixed placeholder.  Compound: for every (main ISO, fraction code) pair of CurrencyFractionMapping that the
culture's tables can spell, 'N <main> <connector> M <fraction>' -> one entity worth N + M/ratio.
"""
import collections
from decimal import Decimal

LEVEL = 'exploration'
RULE = ('every (culture, model, prefix|suffix, unit, spelling) entry of the live tables of the registered Currency/Dimension/Temperature/Age '
        'models x numerals {12, 3.5 in the culture\'s marks, 1000} x {blank, no blank}; every spellable (main, fraction) currency pair x 3 amounts. '
        'non-trivial = a table entry that was executed; distinct = distinct (culture, model, kind, unit, spelling). exhaustive over the tables in both tiers '
        '(quick tier: numerals 12 and 3.5; thorough: all three numerals and a carrier sentence).')
EXHAUSTIVE = True
JOB_TIMEOUT = 5400
MODELS = ['CurrencyModel', 'DimensionModel', 'TemperatureModel', 'AgeModel']
CONNECT = {'en-us': 'and', 'es-es': 'y', 'es-mx': 'y', 'fr-fr': 'et', 'pt-br': 'e', 'it-it': 'e', 'de-de': 'und', 'nl-nl': 'en'}


def dec_mark(cu):
    from recognizers_number.culture import SUPPORTED_CULTURES
    lf = SUPPORTED_CULTURES.get(cu)
    return '.' if lf is None else lf.decimals_mark


def number_value(cu, numeral):
    from rtmon import lib
    nm = lib.model('NumberRecognizer', 'NumberModel', cu)
    r = nm.parse(numeral)
    return r[0].resolution['value'] if len(r) == 1 and r[0] is not None else None


def tables(m):
    ep = m.extractor_parser[0]
    cfg = ep.extractor.config
    pcfg = ep.parser.config
    return cfg, pcfg


def forms_of(table):
    for unit, forms in (table or {}).items():
        for form in str(forms).split('|'):
            f = form.strip()
            if f:
                yield unit, f


def run_tables(job, ctx):
    from rtmon import lib
    from recognizers_text import QueryProcessor
    cu, mt = job['culture'], job['model']
    m = lib.model('NumberWithUnitRecognizer', mt, cu)
    cfg, pcfg = tables(m)
    idx = collections.defaultdict(set)
    for table in (cfg.suffix_list, cfg.prefix_list):
        for unit, f in forms_of(table):
            idx[f].add(unit)
            idx[f.lower()].add(unit)
    iso_map = getattr(pcfg, 'currency_name_to_iso_code_map', None) or {}
    dm = dec_mark(cu)
    numerals = ['12', '3' + dm + '5'] + (['1000'] if ctx.tier == 'thorough' else [])
    nvals = {n: number_value(cu, n) for n in numerals}
    cjk = cu in ('zh-cn', 'ja-jp')
    ctx.extra['tables'] = {'%s:%s' % (cu, mt): {'suffix_units': len(cfg.suffix_list or {}), 'prefix_units': len(cfg.prefix_list or {})}}
    for kind, table in (('suffix', cfg.suffix_list), ('prefix', cfg.prefix_list)):
        for unit, form in forms_of(table):
            key = '%s|%s|%s|%s|%s' % (cu, mt, kind, unit, form)
            where = {'model': mt, 'culture': cu, 'kind': kind}
            accept = idx.get(form, set()) | idx.get(QueryProcessor.preprocess(form, True).strip(), set()) | idx.get(form.lower(), set())
            tries = []
            passed = {}
            for n in numerals:
                passed[n] = False
                seps = ['', ' '] if (cjk and not form[0].isascii()) else [' ', '']
                for sep in seps:
                    base = '%s%s%s' % (n, sep, form) if kind == 'suffix' else '%s%s%s' % (form, sep, n)
                    qs = [base] + (['it is %s now' % base] if ctx.tier == 'thorough' and not cjk else [])
                    for q in qs:
                        st = q.index(base)
                        en = st + len(base) - 1
                        try:
                            res = m.parse(q)
                        except Exception as e:
                            tries.append({'query': q, 'exception': repr(e)})
                            continue
                        ctx.event('boundary_calls')
                        good = (len(res) == 1 and res[0].start == st and res[0].end == en and res[0].resolution is not None and
                                res[0].resolution.get('value') == nvals[n] and nvals[n] is not None and res[0].resolution.get('unit') in accept)
                        if good and mt == 'CurrencyModel':
                            code = iso_map.get(res[0].resolution.get('unit'))
                            got = res[0].resolution.get('isoCurrency')
                            good = (got == code) if code and not code.startswith('_') else (got is None)
                        if good:
                            passed[n] = True
                        else:
                            tries.append({'query': q, 'observed': [lib.ent(e) for e in res]})
                    if passed[n]:
                        break
                if passed[n] and ctx.tier == 'quick':
                    break
            # quick: one numeral in one template suffices; thorough: every numeral must pass in some template
            ok = any(passed.values()) if ctx.tier == 'quick' else all(passed.values())
            if not tries:
                tries.append({'query': None, 'observed': 'all templates passed'})
            ctx.observe(key=key, cell='%s:%s:%s' % (cu, mt, kind), sample={'entry': key, 'tried': tries[-1]})
            if ok and any(ch in '123456789' for ch in form):
                # a spelling that contains a digit (m2, cm3, km^2): the numeral equal to that digit must keep the unit as well
                for dgt in sorted({ch for ch in form if ch in '123456789'}):
                    got_ok, seen = False, None
                    for sep in ([' ', ''] if not (cjk and not form[0].isascii()) else ['', ' ']):
                        q = '%s%s%s' % (dgt, sep, form) if kind == 'suffix' else '%s%s%s' % (form, sep, dgt)
                        try:
                            res = m.parse(q)
                        except Exception as e:
                            seen = repr(e)
                            continue
                        ctx.event('boundary_calls')
                        seen = [lib.ent(e) for e in res]
                        if len(res) == 1 and (res[0].start, res[0].end) == (0, len(q) - 1) and res[0].resolution and res[0].resolution.get('value') == dgt and res[0].resolution.get('unit') in accept:
                            got_ok = True
                            break
                    ctx.observe(key=key + '|digit' + dgt, cell='%s:%s:%s' % (cu, mt, kind))
                    if not got_ok:
                        ctx.fail('numeral-equal-to-a-digit-of-the-spelling', where, key + '|digit' + dgt, {'culture': cu, 'model': mt, 'kind': kind, 'unit': unit, 'form': form, 'query': q},
                                 {'unit': sorted(accept), 'value': dgt}, seen)
            if not ok:
                last = tries[-1] if tries else {}
                ents = last.get('observed') or []
                pre = QueryProcessor.preprocess(form, True)
                if pre != form and pre.strip() not in {f for _, f in forms_of(cfg.suffix_list)} | {f for _, f in forms_of(cfg.prefix_list)}:
                    mech = 'spelling-unreachable-after-lower-casing'
                elif not ents:
                    mech = 'spelling-not-recognised'
                elif len(ents) > 1:
                    mech = 'spelling-split'
                elif ents[0]['resolution'] is None or ents[0]['resolution'].get('value') is None:
                    mech = 'unit-recognised-without-its-number'
                elif ents[0]['resolution'].get('unit') not in accept:
                    mech = 'spelling-mapped-to-another-unit'
                elif mt == 'CurrencyModel' and ents[0]['resolution'].get('isoCurrency') != iso_map.get(ents[0]['resolution'].get('unit')) and not str(iso_map.get(ents[0]['resolution'].get('unit'))).startswith('_'):
                    mech = 'wrong-iso-code'
                elif ents[0]['resolution'].get('value') not in nvals.values():
                    mech = 'number-changed'
                else:
                    mech = 'wrong-span'
                ctx.fail(mech, where, key, {'culture': cu, 'model': mt, 'kind': kind, 'unit': unit, 'form': form, 'query': last.get('query')},
                         {'unit': sorted(accept), 'value': nvals.get(numerals[0])}, ents or last.get('exception'))


def run_compound(job, ctx):
    from rtmon import lib
    cu = job['culture']
    m = lib.model('NumberWithUnitRecognizer', 'CurrencyModel', cu)
    cfg, pcfg = tables(m)
    iso_map = pcfg.currency_name_to_iso_code_map or {}
    frac_code = pcfg.currency_fraction_code_list or {}
    ratios = pcfg.currency_fraction_num_map or {}
    mapping = pcfg.currency_fraction_mapping or {}
    suffix = {}
    for unit, f in forms_of(cfg.suffix_list):
        suffix.setdefault(unit, []).append(f)
    con = CONNECT[cu]
    dm = dec_mark(cu)
    r = ctx.rng('compound:' + cu)
    for iso, codes in sorted(mapping.items()):
        mains = sorted(u for u, c in iso_map.items() if c == iso and u in suffix)
        fracs = sorted(u for u, c in frac_code.items() if c in codes.split('|') and u in suffix and ratios.get(u))
        for mu in mains[:2]:
            for fu in fracs[:3]:
                mform = next((f for f in suffix[mu] if f.isalpha() or ' ' in f), suffix[mu][0])
                fform = next((f for f in suffix[fu] if f.isalpha() or ' ' in f), suffix[fu][0])
                # only pairs whose two spellings work on their own are composed (a spelling that fails alone is
                # already reported by the table walk)
                def alone(form, unit):
                    rr = m.parse('7 ' + form)
                    return len(rr) == 1 and rr[0].resolution and rr[0].resolution.get('unit') == unit and rr[0].resolution.get('value') == '7' and rr[0].end == len('7 ' + form) - 1
                if not (alone(mform, mu) and alone(fform, fu)):
                    ctx.count('compound_pairs_skipped_spelling_fails_alone')
                    continue
                for N, M in ((5, 30), (12, 5), (r.randrange(1, 900), r.randrange(1, min(99, ratios[fu] - 1) + 1))):
                    q = '%d %s %s %d %s' % (N, mform, con, M, fform)
                    key = '%s|compound|%s|%s' % (cu, mu, fu)      # not the amounts: they vary with the seed
                    where = {'model': 'CurrencyModel', 'culture': cu, 'kind': 'compound'}
                    want = Decimal(N) + Decimal(M) / Decimal(ratios[fu])
                    try:
                        res = m.parse(q)
                    except Exception as e:
                        ctx.observe(key=key, cell=cu + ':compound')
                        ctx.fail('exception', where, key, {'culture': cu, 'query': q}, str(want), repr(e))
                        continue
                    ents = [lib.ent(e) for e in res]
                    ctx.event('boundary_calls')
                    ctx.observe(key=key, cell=cu + ':compound', sample={'query': q, 'observed': ents})
                    mech = None
                    if len(res) != 1:
                        mech = 'compound-not-one-entity'
                    else:
                        e = res[0]
                        rs = e.resolution or {}
                        try:
                            got = Decimal(str(rs.get('value')).replace(dm, '.') if dm != '.' else str(rs.get('value')))
                        except Exception:
                            got = None
                        if (e.start, e.end) != (0, len(q) - 1):
                            mech = 'compound-wrong-span'
                        elif rs.get('unit') != mu and iso_map.get(rs.get('unit')) != iso:
                            mech = 'compound-wrong-unit'
                        elif got is None or abs(got - want) > Decimal('0.0000001'):
                            mech = 'compound-wrong-value'
                        elif not iso.startswith('_') and rs.get('isoCurrency') != iso:
                            mech = 'compound-wrong-iso'
                    if mech:
                        ctx.fail(mech, where, key, {'culture': cu, 'query': q, 'main': mu, 'fraction': fu, 'ratio': ratios[fu]}, {'value': str(want), 'unit': mu, 'iso': iso}, ents)


def plan(tier, seed):
    from rtmon import lib
    jobs = []
    for rn, mt, cu in lib.registered():
        if rn == 'NumberWithUnitRecognizer' and mt in MODELS:
            jobs.append({'name': '%s-%s' % (cu, mt), 'kind': 'tables', 'culture': cu, 'model': mt, 'weight': 5 if mt == 'CurrencyModel' else 2})
            if mt == 'CurrencyModel' and cu in CONNECT:
                jobs.append({'name': '%s-compound' % cu, 'kind': 'compound', 'culture': cu})
    return jobs


def run(job, ctx):
    (run_tables if job['kind'] == 'tables' else run_compound)(job, ctx)
