"""C19 - the Python port agrees with the cross-platform Specs wherever it claims support.

(1) every Python-supported case of Specs/**/*.json is executed through the repository's OWN runner
    (Python/tests/test_runner_*.py, run by pytest against the working tree, cwd = <repo>/Python so that level
    construction by naming convention, option decoding and tolerances are exactly the project's); each case's
    outcome is read from the junit report: a failing or erroring case is a violation, keyed by its test id;
(2) a strict comparator on the model-level cases: same count and order of entities, text, type, Start/End where
    given, same number of resolution values and - position by position - every resolution key the Python entity
    carries has the specified value and it carries no key the spec does not list.
"""
import collections
import datetime as dt
import glob
import json
import os
import re
import subprocess
import sys
import xml.etree.ElementTree as ET

from rtmon import bootstrap, lib

LEVEL = 'exploration'
RULE = ('exhaustive over the corpus: every case of Specs/**/*.json not marked NotSupported/NotSupportedByDesign for python is run by the '
        'repository\'s runner (model, extractor, parser and merged-parser levels, options from the file names) and, for model-level files, '
        'additionally by the strict comparator. non-trivial = a case that was executed (not skipped); distinct = distinct test id / (file, index).')
EXHAUSTIVE = True
JOB_TIMEOUT = 5400
RUNNERS = ['test_runner_datetime.py', 'test_runner_number.py', 'test_runner_number_with_unit.py', 'test_runner_sequence.py', 'test_runner_choice.py']


def plan(tier, seed):
    jobs = [{'name': 'runner-datetime', 'kind': 'pytest', 'files': ['test_runner_datetime.py'], 'n': 10, 'weight': 9}]
    jobs.append({'name': 'runner-others', 'kind': 'pytest', 'files': RUNNERS[1:], 'n': 3, 'weight': 5})
    for s in range(4):
        jobs.append({'name': 'strict-%d' % s, 'kind': 'strict', 'shard': s, 'shards': 4, 'weight': 3})
    return jobs


def run_pytest(job, ctx):
    out = os.path.join(bootstrap.VERIF, '.work', 'c19-%d-%s.xml' % (os.getpid(), job['name']))
    env = bootstrap.child_env()
    env['PYTHONPATH'] = os.pathsep.join(bootstrap.lib_paths())
    cmd = [sys.executable, '-m', 'pytest', '-q', '-p', 'no:cacheprovider', '-n', str(job['n']), '--junitxml', out, '-o', 'junit_family=xunit1'] + \
          [os.path.join('tests', f) for f in job['files']]
    r = subprocess.run(cmd, cwd=os.path.join(bootstrap.REPO, 'Python'), env=env, capture_output=True, text=True, timeout=2700)
    if not os.path.exists(out):
        raise bootstrap.Inconclusive('the repository runner produced no junit report: ' + (r.stdout + r.stderr)[-500:])
    try:
        tree = ET.parse(out)
    finally:
        os.remove(out)
    counts = collections.Counter()
    for tc in tree.iter('testcase'):
        name = tc.get('name')
        fn = (tc.get('file') or tc.get('classname') or '').split('/')[-1].split('.')[-1]
        key = '%s::%s' % (fn, name)
        sk = tc.find('skipped')
        fl = tc.find('failure')
        er = tc.find('error')
        if sk is not None:
            counts['skipped'] += 1
            continue
        level = name.split('[')[0]
        ctx.observe(key=key, cell=level, sample={'test': key[:200], 'outcome': 'failed' if fl is not None or er is not None else 'passed'} if counts['run'] % 997 == 0 else None)
        counts['run'] += 1
        if fl is not None or er is not None:
            node = fl if fl is not None else er
            msg = (node.get('message') or '')[:500]
            ctx.fail('spec-case-fails:' + level, {'model': level, 'runner': fn}, key, {'test': key, 'query': name[name.find('[') + 1:][:200]}, 'the repository runner passes', msg)
    ctx.count('runner_cases_run', counts['run'])
    ctx.count('runner_cases_skipped_not_supported', counts['skipped'])
    if counts['run'] == 0:
        raise bootstrap.Inconclusive('the repository runner executed no case: ' + (r.stdout + r.stderr)[-500:])


def model_functions():
    from recognizers_number import recognize_number, recognize_ordinal, recognize_percentage
    from recognizers_number_with_unit import recognize_age, recognize_currency, recognize_dimension, recognize_temperature
    from recognizers_sequence.sequence.sequence_recognizer import (recognize_phone_number, recognize_email, recognize_ip_address,
                                                                   recognize_mention, recognize_hashtag, recognize_url, recognize_guid)
    from recognizers_choice.choice.recognizers_choice import recognize_boolean
    return {'NumberModel': recognize_number, 'OrdinalModel': recognize_ordinal, 'PercentModel': recognize_percentage, 'AgeModel': recognize_age,
            'CurrencyModel': recognize_currency, 'DimensionModel': recognize_dimension, 'TemperatureModel': recognize_temperature,
            'PhoneNumberModel': recognize_phone_number, 'EmailModel': recognize_email, 'IpAddressModel': recognize_ip_address,
            'MentionModel': recognize_mention, 'HashtagModel': recognize_hashtag, 'URLModel': recognize_url, 'GUIDModel': recognize_guid,
            'BooleanModel': recognize_boolean}


def strict_diff(r, exp):
    """None when the strict comparator is satisfied, else a mechanism string"""
    if len(r) != len(exp):
        return 'entity-count'
    for a, e in zip(r, exp):
        if a is None:
            return 'none-entity'
        if 'Text' in e and a.text != e['Text'] and a.text.lower() != e['Text'].lower():
            return 'text'
        if 'TypeName' in e and a.type_name != e['TypeName']:
            return 'type-name'
        if 'Start' in e and a.start != e['Start']:
            return 'start'
        if 'End' in e and a.end != e['End']:
            return 'end'
        if e.get('Resolution') is not None:
            er, ar = e['Resolution'], a.resolution
            if ar is None:
                return 'resolution-none'
            if 'values' in er:
                av = ar.get('values') or []
                if len(av) != len(er['values']):
                    return 'values-count'
                for x, y in zip(av, er['values']):
                    for k, v in y.items():
                        if k in x and x.get(k) != v:
                            return 'values-field-positional:' + k
                    for k in x:
                        if k not in y:
                            return 'values-extra-key:' + k
            else:
                for k, v in er.items():
                    if k in ('score', 'otherResults'):
                        continue
                    if k in ar and str(ar.get(k)) != str(v):
                        return 'resolution-field:' + k
                for k in ar:
                    # isoCurrency is an addition of the Python port that many currency specs simply do not list
                    # (like 'subtype', which they list and the port never emits): reported by the runner as equal, not judged here
                    if k not in er and k not in ('score', 'isoCurrency'):
                        return 'resolution-extra-key:' + k
    return None


def run_strict(job, ctx):
    from recognizers_date_time import recognize_datetime, DateTimeOptions
    F = model_functions()
    files = sorted(glob.glob(os.path.join(lib.SPECS, '*', '*', '*Model*.json')))
    for fi, f in enumerate(files):
        if fi % job['shards'] != job['shard']:
            continue
        parts = f.split(os.sep)
        rec, lang, name = parts[-3], parts[-2], os.path.splitext(parts[-1])[0]
        cu = lib.LANG_CULTURE.get(lang)
        if not cu:
            continue
        opt = None
        if rec == 'DateTime':
            mm = re.match(r'DateTimeModel(.*)$', name)
            if not mm or mm.group(1) not in ('', 'CalendarMode', 'SplitDateAndTime'):
                continue
            opt = {'': DateTimeOptions.NONE, 'CalendarMode': DateTimeOptions.CALENDAR, 'SplitDateAndTime': DateTimeOptions.SPLIT_DATE_AND_TIME}[mm.group(1)]
        elif name not in F:
            continue
        rel = os.path.relpath(f, lib.SPECS)
        for i, s in enumerate(lib.load_spec(f)):
            if not lib.py_supported(s):
                continue
            key = 'strict|%s|%d|%s' % (rel, i, s['Input'])
            where = {'model': name, 'culture': cu, 'file': rel}
            try:
                if rec == 'DateTime':
                    ref = (s.get('Context') or {}).get('ReferenceDateTime')
                    r = recognize_datetime(s['Input'], cu, opt, lib.parse_ref(ref) if ref else None)
                else:
                    r = F[name](s['Input'], cu)
            except Exception as e:
                ctx.observe(key=key, cell='strict:' + rec)
                ctx.fail('strict:exception', where, key, {'file': rel, 'index': i, 'query': s['Input']}, s['Results'], repr(e))
                continue
            why = strict_diff(r, s['Results'])
            ctx.observe(key=key, cell='strict:' + rec, sample={'file': rel, 'input': s['Input'], 'observed': [lib.ent(e) for e in r][:2]})
            if why:
                ctx.fail('strict:' + why, where, key, {'file': rel, 'index': i, 'query': s['Input'], 'reference': (s.get('Context') or {}).get('ReferenceDateTime')},
                         s['Results'], [lib.ent(e) for e in r])


def run(job, ctx):
    (run_pytest if job['kind'] == 'pytest' else run_strict)(job, ctx)
    import recognizers_text  # noqa: F401  origin assertion
