"""C08 - relative date expressions are calendar arithmetic on the reference date.

The reference sweeps the calendar boundaries the property names; the oracle is stdlib
date/timedelta/isocalendar arithmetic written directly from the statement.
"""
import datetime as dt

from rtmon import dtlib, numerals

LEVEL = 'exploration'
RULE = ('reference datetimes: every weekday, month ends, 02-29, year boundaries, ISO week 52/53/1 transitions (all days from 12-24 to 01-07 '
        'of years of each ISO shape), 23:59:59, plus seeded 1950..2090; x {today, tomorrow, yesterday, now, N days|weeks ago, in N '
        'days|weeks, N days from now (N in {1,2,7,30,365,random 1..5000}), next/last/this <weekday>, this/next/last week|month|year} in '
        'en-us; today/tomorrow/yesterday in the other 8 cultures; in es-es, fr-fr, pt-br, it-it, de-de, nl-nl, zh-cn the translations of the same families '
        '(N days/weeks ago / in N days/weeks, this/next/last week|month|year, next/last/this <weekday>) restricted to the phrasings in CULT_REL, i.e. those '
        'each culture resolves by the English statement at all (the others - e.g. es "hace N días", fr "dans N jours", it "N giorni fa" - are outside the statement, '
        'which is worded for English, and are not driven). non-trivial = one resolved entity; distinct = distinct (culture, query, reference).')
EXHAUSTIVE = False
JOB_TIMEOUT = 5400


WD = dtlib.WD
# culture -> family -> phrasings ({n} = N >= 2, {w} = weekday name)
CULT_REL = {
    'es-es': {'in days': ['en {n} días'], 'in weeks': ['en {n} semanas'], 'this week': ['esta semana'], 'next week': ['próxima semana', 'la próxima semana'],
              'this month': ['este mes'], 'next month': ['próximo mes', 'el próximo mes'], 'this year': ['este año'], 'next year': ['próximo año', 'el próximo año'],
              'next wd': ['próximo {w}'], 'last wd': ['{w} pasado'], 'this wd': ['este {w}']},
    'fr-fr': {'this week': ['cette semaine'], 'next week': ['la semaine prochaine', 'semaine prochaine'], 'last week': ['la semaine dernière', 'semaine dernière'],
              'this month': ['ce mois'], 'next wd': ['{w} prochain'], 'last wd': ['{w} dernier']},
    'pt-br': {'days ago': ['{n} dias atrás'], 'in days': ['em {n} dias'], 'weeks ago': ['{n} semanas atrás'], 'in weeks': ['em {n} semanas'],
              'this week': ['esta semana'], 'next week': ['próxima semana'], 'this year': ['este ano'], 'next year': ['próximo ano'],
              'next wd': ['próxima {w}', 'próximo {w}'], 'this wd': ['esta {w}', 'este {w}']},
    'it-it': {'in days': ['tra {n} giorni', 'fra {n} giorni'], 'in weeks': ['tra {n} settimane', 'fra {n} settimane'],
              'this week': ['questa settimana'], 'next week': ['la prossima settimana'], 'last week': ['la settimana scorsa', 'settimana scorsa'],
              'this month': ['questo mese'], 'next month': ['il prossimo mese', 'prossimo mese'],
              'this year': ["quest'anno"], 'next year': ['il prossimo anno', 'prossimo anno'],
              'next wd': ['{w} prossimo', 'prossimo {w}'], 'last wd': ['{w} scorso', 'scorso {w}'], 'this wd': ['questo {w}']},
    'de-de': {'in days': ['in {n} Tagen'], 'in weeks': ['in {n} Wochen'], 'this week': ['diese Woche'], 'next week': ['nächste Woche'], 'last week': ['letzte Woche'],
              'this month': ['diesen Monat', 'dieser Monat'], 'next month': ['nächsten Monat', 'nächster Monat'], 'last month': ['letzten Monat', 'letzter Monat'],
              'this year': ['dieses Jahr'], 'next year': ['nächstes Jahr'], 'last year': ['letztes Jahr'],
              'next wd': ['nächsten {w}', 'nächster {w}'], 'last wd': ['letzten {w}', 'letzter {w}'], 'this wd': ['diesen {w}']},
    'nl-nl': {'days ago': ['{n} dagen geleden'], 'in days': ['over {n} dagen'], 'weeks ago': ['{n} weken geleden'], 'in weeks': ['over {n} weken'],
              'this week': ['deze week'], 'next week': ['volgende week', 'komende week'], 'last week': ['vorige week', 'afgelopen week'],
              'this month': ['deze maand'], 'next month': ['volgende maand'], 'last month': ['vorige maand'],
              'this year': ['dit jaar'], 'next year': ['volgend jaar'], 'last year': ['vorig jaar'],
              'next wd': ['volgende {w}', 'komende {w}'], 'last wd': ['vorige {w}', 'afgelopen {w}'], 'this wd': ['deze {w}']},
    'zh-cn': {'days ago': ['{n}天前'], 'in days': ['{n}天后'], 'weeks ago': ['{n}周前'], 'in weeks': ['{n}周后'],
              'this week': ['这周', '本周'], 'next week': ['下周'], 'last week': ['上周'], 'this month': ['这个月', '本月'], 'next month': ['下个月', '下月'],
              'last month': ['上个月', '上月'], 'next year': ['明年'], 'last year': ['去年'],
              'next wd': ['下{w}'], 'last wd': ['上{w}'], 'this wd': ['这{w}', '本{w}']},
}


WORD_N = {'zh-cn': 5001}      # cultures whose written-out N is driven too (upper bound of N)


def monday(d):
    return d - dt.timedelta(days=d.weekday())


def expected(kind, D, R, arg=None):
    """(type, [value dicts to compare on the keys given])"""
    if kind in ('today', 'tomorrow', 'yesterday'):
        d = D + dt.timedelta(days={'today': 0, 'tomorrow': 1, 'yesterday': -1}[kind])
        return 'date', [{'value': d.isoformat(), 'timex': d.isoformat()}]
    if kind == 'now':
        return 'datetime', [{'value': R.strftime('%Y-%m-%d %H:%M:%S'), 'timex': 'PRESENT_REF'}]
    if kind in ('days ago', 'weeks ago', 'in days', 'in weeks', 'days from now'):
        n = arg * (7 if 'weeks' in kind else 1)
        d = D - dt.timedelta(days=n) if 'ago' in kind else D + dt.timedelta(days=n)
        return 'date', [{'value': d.isoformat(), 'timex': d.isoformat()}]
    if kind in ('next wd', 'last wd', 'this wd'):
        off = {'next wd': 7, 'last wd': -7, 'this wd': 0}[kind]
        d = monday(D) + dt.timedelta(days=off + arg)
        return 'date', [{'value': d.isoformat(), 'timex': d.isoformat()}]
    sw = {'this': 0, 'next': 1, 'last': -1}[kind.split()[0]]
    unit = kind.split()[1]
    if unit == 'week':
        ms = monday(D) + dt.timedelta(days=7 * sw)
        iso = (ms + dt.timedelta(days=3)).isocalendar()
        return 'daterange', [{'start': ms.isoformat(), 'end': (ms + dt.timedelta(days=7)).isoformat(), 'timex': '%04d-W%02d' % (iso[0], iso[1])}]
    if unit == 'month':
        y, mo = D.year, D.month + sw
        if mo == 0:
            y, mo = y - 1, 12
        if mo == 13:
            y, mo = y + 1, 1
        ny, nm = (y, mo + 1) if mo < 12 else (y + 1, 1)
        return 'daterange', [{'start': dt.date(y, mo, 1).isoformat(), 'end': dt.date(ny, nm, 1).isoformat(), 'timex': '%04d-%02d' % (y, mo)}]
    yy = D.year + sw
    return 'daterange', [{'start': '%04d-01-01' % yy, 'end': '%04d-01-01' % (yy + 1), 'timex': '%04d' % yy}]


def check(m, culture, q, R, kind, arg, ctx):
    from rtmon import lib
    where = {'model': 'DateTimeModel', 'culture': culture, 'kind': kind}
    case = {'culture': culture, 'query': q, 'reference': R.isoformat(), 'kind': kind, 'arg': arg}
    key = '%s|%s|%s' % (culture, q, R.isoformat())
    typ, want = expected(kind, R.date(), R, arg)
    lib.take_swallowed()
    try:
        r = m.parse(q, R)
    except Exception as e:
        ctx.observe(key=key, cell=culture + ':' + kind)
        ctx.fail('exception', where, key, case, want, repr(e))
        return
    obs = dtlib.view(r)
    ctx.event('boundary_calls')
    ctx.observe(key=key, nontrivial=len(r) == 1 and r[0].resolution is not None, cell=culture + ':' + kind,
                sample={'culture': culture, 'query': q, 'reference': R.isoformat(), 'observed': obs})
    mech = None
    if not r:
        mech = 'missed'
    elif len(r) > 1:
        mech = 'split'
    else:
        e = r[0]
        vs = dtlib.vals(e)
        if e.resolution is None or not vs:
            mech = 'unresolved'
        elif (e.start, e.end) != (0, len(q) - 1):
            mech = 'wrong-span'
        elif e.type_name != 'datetimeV2.' + typ:
            mech = 'wrong-type'
        elif len(vs) != len(want):
            mech = 'wrong-number-of-values'
        else:
            for v, w in zip(vs, want):
                for k, x in w.items():
                    if v.get(k) != x:
                        mech = mech or ('wrong-' + k)
    if mech and culture == 'zh-cn' and q.startswith('三十') and r and all(str(v.get('timex', '')).startswith('XXXX-XX-3') for v in dtlib.vals(r[0])):
        # known-finding classifier: the written-out N 三十.. (30-39) is taken for the day-of-month 三十(号)
        mech = 'zh-written-thirties-read-as-day-of-month'
    if mech:
        ctx.fail(mech if mech.startswith('zh-written') else '%s:%s' % (mech, kind), where, key, case, {'type': typ, 'values': want}, {'entities': obs, 'swallowed': lib.take_swallowed()})


def iso_boundary_refs():
    out = []
    # years whose Jan 1 falls on each weekday, leap and non-leap where available in 1950..2090
    seen = set()
    for y in range(1950, 2090):
        k = (dt.date(y, 1, 1).weekday(), y % 4 == 0)
        if k in seen:
            continue
        seen.add(k)
        for off in range(-8, 8):
            out.append(dt.datetime(y, 1, 1) + dt.timedelta(days=off, hours=(off * 5) % 24))
    return out


def gen(ctx):
    r = ctx.rng('c08')
    n = 25 if ctx.tier == 'quick' else 900
    refs = dtlib.refs(r, n)
    refs += iso_boundary_refs() if ctx.tier == 'thorough' else r.sample(iso_boundary_refs(), 30)
    for R in refs:
        for w in ('today', 'tomorrow', 'yesterday', 'now'):
            yield 'en-us', w, R, w, None
        for N in (1, 2, 7, 30, 365, r.randrange(1, 5001)):
            pl = 's' if N != 1 else ''
            yield 'en-us', '%d day%s ago' % (N, pl), R, 'days ago', N
            yield 'en-us', 'in %d day%s' % (N, pl), R, 'in days', N
            yield 'en-us', '%d day%s from now' % (N, pl), R, 'days from now', N
            yield 'en-us', '%d week%s ago' % (N, pl), R, 'weeks ago', N
            yield 'en-us', 'in %d week%s' % (N, pl), R, 'in weeks', N
        for N in (3, 12, r.randrange(2, 100), r.randrange(100, 1000)):
            wN = numerals.en_words(N)
            yield 'en-us', '%s days ago' % wN, R, 'days ago', N
            yield 'en-us', 'in %s days' % wN, R, 'in days', N
            yield 'en-us', '%s weeks ago' % wN, R, 'weeks ago', N
            yield 'en-us', 'in %s weeks' % wN, R, 'in weeks', N
        for i, w in enumerate(dtlib.WD_EN):
            yield 'en-us', 'next ' + w, R, 'next wd', i
            yield 'en-us', 'last ' + w, R, 'last wd', i
            yield 'en-us', 'this ' + w, R, 'this wd', i
        for word in ('this', 'next', 'last'):
            for unit in ('week', 'month', 'year'):
                yield 'en-us', '%s %s' % (word, unit), R, '%s %s' % (word, unit), None
    for cu, c in dtlib.CULT.items():
        for R in refs[:: (4 if ctx.tier == 'quick' else 2)]:
            for w, off in c['rel'].items():
                yield cu, w, R, {0: 'today', 1: 'tomorrow', -1: 'yesterday'}[off], None
    for cu, fam in CULT_REL.items():
        for R in refs[:: (3 if ctx.tier == 'quick' else 4)]:
            for kind, tpls in fam.items():
                for t in tpls:
                    if '{n}' in t:
                        for N in (2, 7, 30, 365, r.randrange(2, 5001)):
                            yield cu, t.format(n=N), R, kind, N
                        if cu in WORD_N:
                            # N written in words / numerals of the language
                            for N in (3, 10, 21, r.randrange(2, 100), r.randrange(100, WORD_N[cu])):
                                yield cu, t.format(n=numerals.LANGS[cu][0](N)[0][1]), R, kind, N
                    elif '{w}' in t:
                        for i, w in enumerate(WD[cu]):
                            yield cu, t.format(w=w), R, kind, i
                    else:
                        yield cu, t, R, kind, None


def plan(tier, seed):
    n = 8 if tier == 'quick' else 16
    return [{'name': 's%d' % i, 'shard': i, 'shards': n} for i in range(n)]


def run(job, ctx):
    models = {}
    for i, (cu, q, R, kind, arg) in enumerate(gen(ctx)):
        # shard by culture-stable index so each worker builds few models
        if (i // 50) % job['shards'] != job['shard']:
            continue
        if cu not in models:
            models[cu] = dtlib.dt_model(cu)
        check(models[cu], cu, q, R, kind, arg, ctx)


def replay_case(fail, ctx):
    c = fail['case']
    check(dtlib.dt_model(c['culture']), c['culture'], c['query'], dt.datetime.fromisoformat(c['reference']), c['kind'], c.get('arg'), ctx)
