"""Shared pieces of the date-time workloads (C06-C11): model access, references, layouts, entity views."""
import datetime as dt

MON_EN = ['January', 'February', 'March', 'April', 'May', 'June', 'July', 'August', 'September', 'October', 'November', 'December']
ABB_EN = ['Jan', 'Feb', 'Mar', 'Apr', 'May', 'Jun', 'Jul', 'Aug', 'Sep', 'Oct', 'Nov', 'Dec']
WD_EN = ['monday', 'tuesday', 'wednesday', 'thursday', 'friday', 'saturday', 'sunday']
DT_CULTURES = ['en-us', 'es-es', 'es-mx', 'fr-fr', 'pt-br', 'it-it', 'de-de', 'nl-nl', 'zh-cn']


def suf(d):
    return 'th' if 11 <= d % 100 <= 13 else {1: 'st', 2: 'nd', 3: 'rd'}.get(d % 10, 'th')


EN_LAYOUTS = {
    'iso': lambda d: '%04d-%02d-%02d' % (d.year, d.month, d.day),
    'm/d/yyyy': lambda d: '%d/%d/%d' % (d.month, d.day, d.year),
    'mm/dd/yyyy': lambda d: '%02d/%02d/%d' % (d.month, d.day, d.year),
    'm-d-yyyy': lambda d: '%d-%d-%d' % (d.month, d.day, d.year),
    'yyyy/m/d': lambda d: '%d/%d/%d' % (d.year, d.month, d.day),
    'Month d, yyyy': lambda d: '%s %d, %d' % (MON_EN[d.month - 1], d.day, d.year),
    'Month d yyyy': lambda d: '%s %d %d' % (MON_EN[d.month - 1], d.day, d.year),
    'Month dth, yyyy': lambda d: '%s %d%s, %d' % (MON_EN[d.month - 1], d.day, suf(d.day), d.year),
    'Mon d, yyyy': lambda d: '%s %d, %d' % (ABB_EN[d.month - 1], d.day, d.year),
    'd Month yyyy': lambda d: '%d %s %d' % (d.day, MON_EN[d.month - 1], d.year),
    'dth of Month yyyy': lambda d: '%d%s of %s %d' % (d.day, suf(d.day), MON_EN[d.month - 1], d.year),
    'the dth of Month, yyyy': lambda d: 'the %d%s of %s, %d' % (d.day, suf(d.day), MON_EN[d.month - 1], d.year),
    # the same numeric layouts with blanks around the separators / backslashes (all recognised by the unchanged tree)
    'm / d / yyyy': lambda d: '%d / %d / %d' % (d.month, d.day, d.year),
    'm - d - yyyy': lambda d: '%d - %d - %d' % (d.month, d.day, d.year),
    'm\\d\\yyyy': lambda d: '%d\\%d\\%d' % (d.month, d.day, d.year),
    # further spellings of the same layouts: zero padding, year first, letter case, abbreviations, ordinal suffixes, weekday in front
    'mm-dd-yyyy': lambda d: '%02d-%02d-%d' % (d.month, d.day, d.year),
    'yyyy-m-d': lambda d: '%d-%d-%d' % (d.year, d.month, d.day),
    'yyyy.mm.dd': lambda d: '%d.%02d.%02d' % (d.year, d.month, d.day),
    'MONTH d, yyyy': lambda d: '%s %d, %d' % (MON_EN[d.month - 1].upper(), d.day, d.year),
    'month d, yyyy': lambda d: '%s %d, %d' % (MON_EN[d.month - 1].lower(), d.day, d.year),
    'Mon. d, yyyy': lambda d: '%s. %d, %d' % (ABB_EN[d.month - 1], d.day, d.year),
    'Mon d yyyy': lambda d: '%s %d %d' % (ABB_EN[d.month - 1], d.day, d.year),
    'd Mon yyyy': lambda d: '%d %s %d' % (d.day, ABB_EN[d.month - 1], d.year),
    'd-Mon-yyyy': lambda d: '%d-%s-%d' % (d.day, ABB_EN[d.month - 1], d.year),
    'dth Month yyyy': lambda d: '%d%s %s %d' % (d.day, suf(d.day), MON_EN[d.month - 1], d.year),
    'Month the dth, yyyy': lambda d: '%s the %d%s, %d' % (MON_EN[d.month - 1], d.day, suf(d.day), d.year),
    'Month dth yyyy': lambda d: '%s %d%s %d' % (MON_EN[d.month - 1], d.day, suf(d.day), d.year),
    'Wd, Month d, yyyy': lambda d: '%s, %s %d, %d' % (WD_FULL_EN[d.weekday()], MON_EN[d.month - 1], d.day, d.year),
    'Wd Month d yyyy': lambda d: '%s %s %d %d' % (WD_FULL_EN[d.weekday()], MON_EN[d.month - 1], d.day, d.year),
    'Wd m/d/yyyy': lambda d: '%s %d/%d/%d' % (WD_FULL_EN[d.weekday()], d.month, d.day, d.year),
    'Wd, d Month yyyy': lambda d: '%s, %d %s %d' % (WD_FULL_EN[d.weekday()], d.day, MON_EN[d.month - 1], d.year),
    'd Month, yyyy': lambda d: '%d %s, %d' % (d.day, MON_EN[d.month - 1], d.year),
    'Month d,yyyy': lambda d: '%s %d,%d' % (MON_EN[d.month - 1], d.day, d.year),
}
WD_FULL_EN = ['Monday', 'Tuesday', 'Wednesday', 'Thursday', 'Friday', 'Saturday', 'Sunday']
WD = {
    'es-es': ['lunes', 'martes', 'miércoles', 'jueves', 'viernes', 'sábado', 'domingo'],
    'fr-fr': ['lundi', 'mardi', 'mercredi', 'jeudi', 'vendredi', 'samedi', 'dimanche'],
    'pt-br': ['segunda-feira', 'terça-feira', 'quarta-feira', 'quinta-feira', 'sexta-feira', 'sábado', 'domingo'],
    'it-it': ['lunedì', 'martedì', 'mercoledì', 'giovedì', 'venerdì', 'sabato', 'domenica'],
    'de-de': ['Montag', 'Dienstag', 'Mittwoch', 'Donnerstag', 'Freitag', 'Samstag', 'Sonntag'],
    'nl-nl': ['maandag', 'dinsdag', 'woensdag', 'donderdag', 'vrijdag', 'zaterdag', 'zondag'],
    'zh-cn': ['周一', '周二', '周三', '周四', '周五', '周六', '周日'],
}
WD['es-mx'] = WD['es-es']
ABB = {'fr-fr': ['janv', 'févr', 'mars', 'avr', 'mai', 'juin', 'juil', 'août', 'sept', 'oct', 'nov', 'déc'],
       'es-es': ['ene', 'feb', 'mar', 'abr', 'may', 'jun', 'jul', 'ago', 'sep', 'oct', 'nov', 'dic'], 'it-it': ['gen', 'feb', 'mar', 'apr', 'mag', 'giu', 'lug', 'ago', 'set', 'ott', 'nov', 'dic'],
       'pt-br': ['jan', 'fev', 'mar', 'abr', 'mai', 'jun', 'jul', 'ago', 'set', 'out', 'nov', 'dez'], 'nl-nl': ['jan', 'feb', 'mrt', 'apr', 'mei', 'jun', 'jul', 'aug', 'sep', 'okt', 'nov', 'dec']}
ABB['es-mx'] = ABB['es-es']
ZH_DIGITS = '零一二三四五六七八九'


def zh_small(n):
    if n < 10:
        return ZH_DIGITS[n]
    if n < 20:
        return '十' + (ZH_DIGITS[n % 10] if n % 10 else '')
    return ZH_DIGITS[n // 10] + '十' + (ZH_DIGITS[n % 10] if n % 10 else '')
EN_CARRIERS = ['{}', 'I will leave on {}', '{} is the deadline', 'see you on {} .', '   {}', '  we meet {}  ']

CULT = {
    'es-es': dict(months=['enero', 'febrero', 'marzo', 'abril', 'mayo', 'junio', 'julio', 'agosto', 'septiembre', 'octubre', 'noviembre', 'diciembre'],
                  name=lambda d, m: '%d de %s de %d' % (d.day, m, d.year), rel={'hoy': 0, 'mañana': 1, 'ayer': -1}, carriers=['{}', 'nos vemos el {}']),
    'fr-fr': dict(months=['janvier', 'février', 'mars', 'avril', 'mai', 'juin', 'juillet', 'août', 'septembre', 'octobre', 'novembre', 'décembre'],
                  name=lambda d, m: '%d %s %d' % (d.day, m, d.year), rel={"aujourd'hui": 0, 'demain': 1, 'hier': -1}, carriers=['{}', 'je pars le {}']),
    'de-de': dict(months=['Januar', 'Februar', 'März', 'April', 'Mai', 'Juni', 'Juli', 'August', 'September', 'Oktober', 'November', 'Dezember'],
                  name=lambda d, m: '%d. %s %d' % (d.day, m, d.year), rel={'heute': 0, 'morgen': 1, 'gestern': -1}, carriers=['{}', 'ich komme am {}']),
    'pt-br': dict(months=['janeiro', 'fevereiro', 'março', 'abril', 'maio', 'junho', 'julho', 'agosto', 'setembro', 'outubro', 'novembro', 'dezembro'],
                  name=lambda d, m: '%d de %s de %d' % (d.day, m, d.year), rel={'hoje': 0, 'amanhã': 1, 'ontem': -1}, carriers=['{}', 'vou sair em {}']),
    'it-it': dict(months=['gennaio', 'febbraio', 'marzo', 'aprile', 'maggio', 'giugno', 'luglio', 'agosto', 'settembre', 'ottobre', 'novembre', 'dicembre'],
                  name=lambda d, m: '%d %s %d' % (d.day, m, d.year), rel={'oggi': 0, 'domani': 1, 'ieri': -1}, carriers=['{}', 'data: {}']),
    'nl-nl': dict(months=['januari', 'februari', 'maart', 'april', 'mei', 'juni', 'juli', 'augustus', 'september', 'oktober', 'november', 'december'],
                  name=lambda d, m: '%d %s %d' % (d.day, m, d.year), rel={'vandaag': 0, 'morgen': 1, 'gisteren': -1}, carriers=['{}', 'ik vertrek op {}']),
    'zh-cn': dict(months=None, name=lambda d, m: '%d年%d月%d日' % (d.year, d.month, d.day), rel={'今天': 0, '明天': 1, '昨天': -1}, carriers=['{}']),
}
CULT['es-mx'] = CULT['es-es']


def layouts(culture):
    if culture == 'en-us':
        return EN_LAYOUTS
    c = CULT[culture]
    out = {'iso': EN_LAYOUTS['iso']}
    if culture == 'zh-cn':
        out['yyyy/m/d'] = lambda d: '%d/%d/%d' % (d.year, d.month, d.day)
        out['yyyy-m-d'] = lambda d: '%d-%d-%d' % (d.year, d.month, d.day)
        out['yyyy年m月d日'] = lambda d: c['name'](d, None)
        out['yyyy年m月d号'] = lambda d: '%d年%d月%d号' % (d.year, d.month, d.day)
        out['yyyy年mm月dd日'] = lambda d: '%d年%02d月%02d日' % (d.year, d.month, d.day)
        out['yyyy.m.d'] = lambda d: '%d.%d.%d' % (d.year, d.month, d.day)
        out['zh numerals'] = lambda d: '%s年%s月%s日' % (''.join(ZH_DIGITS[int(ch)] for ch in str(d.year)), zh_small(d.month), zh_small(d.day))
    else:
        out['d/m/yyyy'] = lambda d: '%d/%d/%d' % (d.day, d.month, d.year)
        out['d-m-yyyy'] = lambda d: '%d-%d-%d' % (d.day, d.month, d.year)
        out['dd/mm/yyyy'] = lambda d: '%02d/%02d/%d' % (d.day, d.month, d.year)
        out['month-name'] = lambda d: c['name'](d, c['months'][d.month - 1])
        out['d / m / yyyy'] = lambda d: '%d / %d / %d' % (d.day, d.month, d.year)
        out['d/ m/ yyyy'] = lambda d: '%d/ %d/ %d' % (d.day, d.month, d.year)
        out['d - m - yyyy'] = lambda d: '%d - %d - %d' % (d.day, d.month, d.year)
        out['d.m.yyyy'] = lambda d: '%d.%d.%d' % (d.day, d.month, d.year)
        out['dd.mm.yyyy'] = lambda d: '%02d.%02d.%d' % (d.day, d.month, d.year)
        out['d\\m\\yyyy'] = lambda d: '%d\\%d\\%d' % (d.day, d.month, d.year)
        mon, wd = c['months'], WD[culture]
        out['MONTH-NAME upper'] = lambda d: c['name'](d, mon[d.month - 1]).upper()
        if culture == 'de-de':
            out['Wd, d. Month yyyy'] = lambda d: '%s, %d. %s %d' % (wd[d.weekday()], d.day, mon[d.month - 1], d.year)
            out['den d. Month yyyy'] = lambda d: 'den %d. %s %d' % (d.day, mon[d.month - 1], d.year)
            out['d.Month yyyy'] = lambda d: '%d.%s %d' % (d.day, mon[d.month - 1], d.year)
        elif culture == 'fr-fr':
            out['1er month yyyy'] = lambda d: '%s %s %d' % ('1er' if d.day == 1 else d.day, mon[d.month - 1], d.year)
            out['wd d month yyyy'] = lambda d: '%s %d %s %d' % (wd[d.weekday()], d.day, mon[d.month - 1], d.year)
        elif culture in ('es-es', 'es-mx', 'pt-br'):
            out['wd d de month de yyyy'] = lambda d: '%s %d de %s de %d' % (wd[d.weekday()], d.day, mon[d.month - 1], d.year)
            out['d month yyyy'] = lambda d: '%d %s %d' % (d.day, mon[d.month - 1], d.year)
            out['d de abb de yyyy'] = lambda d: '%d de %s de %d' % (d.day, ABB[culture][d.month - 1], d.year)
            out['d de month del|, yyyy'] = (lambda d: '%d de %s del %d' % (d.day, mon[d.month - 1], d.year)) if culture != 'pt-br' else (lambda d: '%d de %s, %d' % (d.day, mon[d.month - 1], d.year))
        else:
            out['wd d month yyyy'] = lambda d: '%s %d %s %d' % (wd[d.weekday()], d.day, mon[d.month - 1], d.year)
            out['d abb yyyy'] = lambda d: '%d %s %d' % (d.day, ABB[culture][d.month - 1], d.year)
            out['d month, yyyy'] = lambda d: '%d %s, %d' % (d.day, mon[d.month - 1], d.year)
    return out


def carriers(culture):
    return EN_CARRIERS if culture == 'en-us' else CULT[culture]['carriers'] + ['   {}']


def dt_model(culture):
    from rtmon import lib
    return lib.model('DateTimeRecognizer', 'DateTimeModel', culture)


OPT_MODELS = {}


def dt_model_opt(culture, opt):
    """the culture's DateTimeModel of a recogniser built with DateTimeOptions(opt)"""
    from recognizers_date_time import DateTimeRecognizer, DateTimeOptions
    k = (culture, opt)
    if k not in OPT_MODELS:
        OPT_MODELS[k] = DateTimeRecognizer(culture, DateTimeOptions(opt), False).get_datetime_model(culture, False)
    return OPT_MODELS[k]


def rand_ref(r):
    # a share of the references carries microseconds, as datetime.now() does
    return dt.datetime(r.randrange(1950, 2091), r.randrange(1, 13), r.randrange(1, 29), r.randrange(24), r.randrange(60), r.choice([0, r.randrange(60)]),
                       r.choice([0, 0, 0, r.randrange(1, 10 ** 6)]))


def rand_date(r):
    return dt.date(1900, 1, 1) + dt.timedelta(days=r.randrange(73049))      # 1900-01-01 .. 2099-12-31


SPECIAL_DATES = [dt.date(1900, 1, 1), dt.date(2099, 12, 31), dt.date(2000, 2, 29), dt.date(1900, 2, 28), dt.date(2024, 2, 29), dt.date(2016, 12, 31),
                 dt.date(2011, 11, 11), dt.date(2012, 12, 12), dt.date(2001, 1, 2), dt.date(2001, 2, 1), dt.date(1999, 12, 31), dt.date(2000, 1, 1),
                 dt.date(2020, 1, 31), dt.date(2019, 3, 31), dt.date(2030, 10, 10), dt.date(1950, 6, 30)]


def boundary_refs():
    return [dt.datetime(2016, 11, 7, 10, 30), dt.datetime(2020, 2, 29, 0, 0), dt.datetime(2019, 12, 31, 23, 59, 59), dt.datetime(2021, 1, 1),
            dt.datetime(2021, 1, 31, 8), dt.datetime(2019, 3, 31), dt.datetime(2018, 12, 30), dt.datetime(2024, 12, 30), dt.datetime(2021, 1, 3),
            dt.datetime(2015, 12, 28), dt.datetime(2016, 1, 3, 12), dt.datetime(2020, 12, 31, 6), dt.datetime(2026, 1, 1), dt.datetime(2027, 1, 3),
            dt.datetime(2000, 2, 28, 23, 59, 59), dt.datetime(2000, 3, 1), dt.datetime(1999, 12, 31, 12), dt.datetime(2090, 12, 31),
            dt.datetime(1950, 1, 1), dt.datetime(2032, 12, 27), dt.datetime(2033, 1, 2)]


def refs(r, n):
    out = list(boundary_refs())
    for _ in range(n):
        out.append(dt.datetime(1950, 1, 1) + dt.timedelta(days=r.randrange(51500), seconds=r.choice([0, r.randrange(86400)]), microseconds=r.choice([0, 0, r.randrange(1, 10 ** 6)])))
    return out


def view(r):
    from rtmon import lib
    return [lib.ent(e) for e in r]


def vals(e):
    return (e.resolution or {}).get('values') or []


def parse(m, q, ref):
    return m.parse(q, ref)
