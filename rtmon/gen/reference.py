"""Independent reading of Patterns/*.yaml: what each definition MEANS, computed without the repository's generator.

Run by the same interpreter as driver.py (needs ruamel.yaml or PyYAML - only their node-level composer is used, not the
repository's tag classes).  Semantics implemented here, from the Patterns conventions:
  !simpleRegex {def}                 -> the string `def`
  !nestedRegex {def, references}     -> `def` with every {Name} / {Class.Name} that is listed in `references` replaced by the
                                        value of that definition (other braces are literal regex text)
  !paramsRegex {def, params}         -> function of the parameters: `def` with every {param} replaced by its argument
  !dictionary {types:[k,v], entries} -> mapping; keys/values typed: string/char -> str, int/long/double -> number,
                                        a sequence value -> list of strings
  !list {types:[t], entries}         -> list of strings;  a plain YAML sequence -> list of strings
  !char -> str, !bool -> bool, untagged scalar -> bool if YAML boolean, otherwise its text

usage: reference.py REPO_ROOT   -> JSON on stdout: {"<package>/<output>": {"class": name, "defs": {name: encoded value}}}
"""
import glob
import json
import os
import re
import sys

repo = sys.argv[1]
try:
    from ruamel.yaml import YAML

    def compose(path):
        with open(path, encoding='utf-8') as f:
            return YAML(typ='safe').compose(f)
except ImportError:          # PyYAML
    import yaml

    def compose(path):
        with open(path, encoding='utf-8') as f:
            return yaml.compose(f, Loader=yaml.SafeLoader)

PKGS = ['recognizers-number', 'recognizers-number-with-unit', 'recognizers-date-time', 'recognizers-sequence', 'recognizers-choice']
ARGS = [('a', 'b'), ('x', 'y'), ('1', '2')]


def kids(node):
    return {k.value: v for k, v in node.value}


def num(text):
    try:
        return int(text)
    except ValueError:
        return float(text)


def typed(text, t):
    t = (t or 'string').strip()
    if t in ('int', 'long', 'double', 'float'):
        return num(text)
    if t == 'bool':
        return text == 'true'
    return text


modules = {}      # key -> {'class':, 'raw': {name: (kind, payload)}, 'vals': {}}
by_class = {}
for pkg in PKGS:
    d = json.load(open(os.path.join(repo, 'Python', 'libraries', pkg, 'resource-definitions.json')))
    for c in d['configFiles']:
        inp = os.path.join(repo, 'Patterns', *c['input']) + '.yaml'
        if not os.path.exists(inp):
            cand = [p for p in glob.glob(os.path.join(os.path.dirname(inp), '*.yaml')) if p.lower() == inp.lower()]
            if cand:
                inp = cand[0]
        cls = None
        aliases = {}
        for line in c['header']:
            m = re.match(r'class (\w+)', line)
            if m:
                cls = m.group(1)
            m = re.match(r'from \S+ import (\w+) as (\w+)', line)
            if m:
                aliases[m.group(2)] = m.group(1)
        root = compose(inp)
        raw = {}
        for k, v in root.value:
            name, tag = k.value, v.tag
            if tag == '!simpleRegex':
                raw[name] = ('str', kids(v)['def'].value)
            elif tag == '!nestedRegex':
                kk = kids(v)
                raw[name] = ('nested', (kk['def'].value, [r.value for r in kk['references'].value] if 'references' in kk else []))
            elif tag == '!paramsRegex':
                kk = kids(v)
                raw[name] = ('params', (kk['def'].value, [r.value for r in kk['params'].value]))
            elif tag == '!dictionary':
                kk = kids(v)
                kt, vt = [x.value for x in kk['types'].value]
                ents = []
                for ek, ev in kk['entries'].value:
                    if isinstance(ev.value, list):
                        val = [x.value for x in ev.value]
                    else:
                        val = typed(ev.value, vt)
                    ents.append([typed(ek.value, kt), val])
                raw[name] = ('dict', ents)
            elif tag == '!list':
                kk = kids(v)
                raw[name] = ('list', [x.value for x in kk['entries'].value])
            elif tag == '!char':
                raw[name] = ('str', v.value)
            elif tag == '!bool':
                raw[name] = ('bool', v.value == 'true')
            elif isinstance(v.value, list) and tag.endswith(':seq'):
                raw[name] = ('list', [x.value for x in v.value])
            elif tag.endswith(':bool'):
                raw[name] = ('bool', v.value.lower() == 'true')
            else:
                raw[name] = ('str', str(v.value))
        key = '%s/%s' % (pkg, c['output'])
        modules[key] = {'class': cls, 'raw': raw, 'vals': {}, 'aliases': aliases}
        by_class[cls] = modules[key]


def value(mod, name, stack=()):
    if name in mod['vals']:
        return mod['vals'][name]
    kind, payload = mod['raw'][name]
    if kind == 'nested':
        text, refs = payload
        for ref in refs:
            if '.' in ref:
                cname, rname = ref.split('.', 1)
                target = value(by_class[mod['aliases'].get(cname, cname)], rname, stack + (name,))
            else:
                target = value(mod, ref, stack + (name,))
            text = text.replace('{%s}' % ref, target)
        v = text
    elif kind == 'params':
        text, params = payload
        samples = []
        for a in ARGS:
            args = (a + ('z',))[:len(params)] if len(params) <= 3 else None
            if args is None:
                continue
            t = text
            for p, x in zip(params, args):
                t = t.replace('{%s}' % p, x)
            samples.append([list(args), t])
        v = {'__params__': params, 'samples': samples}
    else:
        v = payload
    mod['vals'][name] = v
    return v


out = {}
for key, mod in modules.items():
    defs = {}
    for name in mod['raw']:
        try:
            defs[name] = {'kind': mod['raw'][name][0], 'value': value(mod, name)}
        except Exception as e:   # an unresolvable reference is reported, the checker decides
            defs[name] = {'kind': 'error', 'value': repr(e)}
    out[key] = {'class': mod['class'], 'defs': defs}
json.dump(out, sys.stdout, ensure_ascii=False)
