"""Runs the repository's OWN resource generator (Python/libraries/resource-generator/lib) on every configFiles
entry of the five resource-definitions.json files.  Executed by an interpreter that has ruamel.yaml (or PyYAML plus
the adapter in shims_gen/); writes <out>/<package>/<output>.py and a JSON report on stdout.

usage: driver.py REPO_ROOT OUT_DIR
"""
import glob
import json
import os
import sys

repo, out = sys.argv[1], sys.argv[2]
sys.dont_write_bytecode = True
sys.path.insert(0, os.path.join(repo, 'Python', 'libraries', 'resource-generator'))
from lib.base_code_generator import generate  # noqa: E402

PKGS = ['recognizers-number', 'recognizers-number-with-unit', 'recognizers-date-time', 'recognizers-sequence', 'recognizers-choice']
report = []
for pkg in PKGS:
    defs = os.path.join(repo, 'Python', 'libraries', pkg, 'resource-definitions.json')
    d = json.load(open(defs))
    for c in d['configFiles']:
        inp = os.path.join(repo, 'Patterns', *c['input']) + '.yaml'
        note = None
        if not os.path.exists(inp):
            # the definitions were written on a case-insensitive file system (Base-Hashtag vs Base-HashTag.yaml)
            cand = [p for p in glob.glob(os.path.join(os.path.dirname(inp), '*.yaml')) if p.lower() == inp.lower()]
            if cand:
                note = 'input name differs in case: %s' % os.path.basename(cand[0])
                inp = cand[0]
        o = os.path.join(out, pkg, c['output'] + '.py')
        rec = {'package': pkg, 'input': os.path.relpath(inp, repo), 'output': c['output'], 'outputPath': d['outputPath'], 'note': note}
        try:
            generate(inp, o, '\n'.join(c['header']), '\n'.join(c['footer']))
            rec['generated'] = o
        except Exception as e:  # the repository's index.py prints and continues; we record
            rec['error'] = repr(e)
        report.append(rec)
json.dump(report, sys.stdout)
