"""Known-finding matching.  Never writes known_findings.json.

A *fail* (what a checker reports for one violating case) is a dict with
  mech   : mechanism signature computed by the checker from the OBSERVED wrong output
  where  : {'model':…, 'culture':…, …}  small dict of configuration facts
  key    : canonical literal key of the case (for input-keyed findings)
  case   : everything needed to re-execute the case
  observed / expected : for the reader

A finding in known_findings.json matches a fail iff property and mech are equal and
  kind == 'input'     : fail['key'] is listed in finding['keys']
  kind == 'mechanism' : every item of finding['where'] equals the fail's 'where' item
                        (list value in the finding = any of)
Anything else is an unlisted violation.
"""
import json
import os
import re

from . import bootstrap

PATH = os.path.join(bootstrap.VERIF, 'known_findings.json')


def load(path=PATH):
    if not os.path.exists(path):
        return []
    with open(path, encoding='utf-8') as f:
        doc = json.load(f)
    out = []
    for f in doc.get('findings', []):
        f = dict(f)
        if f.get('kind') == 'input':
            f['_keys'] = set(f.get('keys', ()))
        out.append(f)
    return out


def match(kf, pid, fail):
    for f in kf:
        if f['property'] != pid or f['mech'] != fail.get('mech'):
            continue
        if f.get('kind') == 'input':
            if fail.get('key') in f['_keys']:
                return f
        else:
            w = fail.get('where', {})
            ok = True
            for k, v in f.get('where', {}).items():
                if isinstance(v, list):
                    ok = ok and w.get(k) in v
                else:
                    ok = ok and w.get(k) == v
            if ok:
                return f
    return None


def signature(fail):
    w = fail.get('where', {})
    return '%s|%s|%s' % (fail.get('mech'), w.get('model', '-'), w.get('culture', '-'))


def slug(s):
    return re.sub(r'[^A-Za-z0-9_.-]+', '_', s)[:80]


def brief(fail):
    c = fail.get('case', {})
    q = c.get('query', c.get('input', c.get('q')))
    s = ''
    if q is not None:
        s += 'input=%r ' % (q,)
    if 'reference' in c and c['reference']:
        s += 'ref=%s ' % c['reference']
    if 'expected' in fail:
        s += 'expected=%s ' % _short(fail['expected'])
    if 'observed' in fail:
        s += 'observed=%s' % _short(fail['observed'])
    return s.strip() or _short(c)


def _short(x, n=260):
    s = x if isinstance(x, str) else json.dumps(x, ensure_ascii=False, default=str)
    return s if len(s) <= n else s[:n] + '…'
