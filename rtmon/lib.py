"""Worker-side helpers: result context, model registry, Specs corpus, boundary and swallow monitors."""
import collections
import copy
import datetime as dt
import glob
import json
import os
import random
import sys
import threading
import traceback

from . import bootstrap
from .runner import h64

SPECS = os.path.join(bootstrap.REPO, 'Specs')

# Specs language directory -> culture code (the project's own table in Python/tests/runner.py,
# plus EnglishOthers which the project's runner skips but whose inputs are fine as workload)
LANG_CULTURE = {
    'Chinese': 'zh-cn', 'Dutch': 'nl-nl', 'English': 'en-us', 'French': 'fr-fr', 'Italian': 'it-it',
    'Japanese': 'ja-jp', 'Korean': 'ko-kr', 'Portuguese': 'pt-br', 'Spanish': 'es-es',
    'SpanishMexican': 'es-mx', 'Turkish': 'tr-tr', 'German': 'de-de',
}


class Ctx(object):
    """Collects what one worker job observed.  Thread-safe (C02 appends from many threads)."""

    def __init__(self, pid, tier, seed, job):
        self.pid, self.tier, self.seed, self.job = pid, tier, int(seed), job
        self.lock = threading.Lock()
        self.evals = 0
        self.nontrivial = set()
        self.fails = []
        self.samples = []
        self.counters = collections.Counter()
        self.cells = collections.Counter()
        self.swallowed = collections.Counter()
        self.monitor_events = collections.Counter()
        self.timeouts = []
        self.extra = {}
        self.max_fails = 3000
        self.max_samples = 3

    def rng(self, stream):
        return random.Random('%s:%s:%s' % (self.seed, self.pid, stream))

    def observe(self, key=None, nontrivial=True, cell=None, sample=None, n=1):
        """One evaluation of the oracle.  key: distinct-case key (str) counted when nontrivial."""
        with self.lock:
            self.evals += n
            if nontrivial and key is not None:
                self.nontrivial.add(h64(key))
            if cell:
                self.cells[cell] += n
            if sample is not None and len(self.samples) < self.max_samples:
                self.samples.append(sample)

    def fail(self, mech, where=None, key=None, case=None, expected=None, observed=None, **more):
        with self.lock:
            self.counters['fail:' + mech] += 1
            if len(self.fails) >= self.max_fails:
                self.counters['fails_dropped_over_cap'] += 1
                return
            d = {'mech': mech, 'where': where or {}, 'key': key, 'case': case or {}}
            if expected is not None:
                d['expected'] = expected
            if observed is not None:
                d['observed'] = observed
            d.update(more)
            self.fails.append(d)

    def count(self, name, n=1):
        with self.lock:
            self.counters[name] += n

    def event(self, monitor, n=1):
        with self.lock:
            self.monitor_events[monitor] += n

    def result(self):
        return {
            'evals': self.evals, 'nontrivial': sorted(self.nontrivial), 'fails': self.fails,
            'samples': self.samples, 'counters': dict(self.counters), 'cells': dict(self.cells),
            'swallowed': dict(self.swallowed), 'monitor_events': dict(self.monitor_events),
            'timeouts': self.timeouts, 'extra': self.extra,
        }


# ----------------------------------------------------------------------------------------------
# model registry

_REC = {}
REC_NAMES = ['NumberRecognizer', 'NumberWithUnitRecognizer', 'SequenceRecognizer', 'ChoiceRecognizer', 'DateTimeRecognizer']


def recognizer(name):
    """One long-lived recogniser per package, default options; models are built on first request only
    (lazy_initialization=False means 'do not build all 81 models now' in this code base)."""
    if name not in _REC:
        if name == 'NumberRecognizer':
            from recognizers_number import NumberRecognizer as R
        elif name == 'NumberWithUnitRecognizer':
            from recognizers_number_with_unit import NumberWithUnitRecognizer as R
        elif name == 'SequenceRecognizer':
            from recognizers_sequence import SequenceRecognizer as R
        elif name == 'ChoiceRecognizer':
            from recognizers_choice.choice.recognizers_choice import ChoiceRecognizer as R
        elif name == 'DateTimeRecognizer':
            from recognizers_date_time import DateTimeRecognizer as R
        else:
            raise KeyError(name)
        _REC[name] = R(lazy_initialization=False)
    return _REC[name]


def recognizers(names=None):
    import collections as _c
    return _c.OrderedDict((n, recognizer(n)) for n in (names or REC_NAMES))


def registered():
    """[(recogniser name, model_type, culture)] for every constructor registered today."""
    out = []
    for rn, rec in recognizers().items():
        for key in rec.model_factory.model_factories:
            out.append((rn, key.model_type, key.culture))
    return out


_MODELS = {}


def model(rn, mt, cu, watch=True):
    k = (rn, mt, cu)
    if k not in _MODELS:
        rec = recognizer(rn)
        m = rec.model_factory.get_model(mt, cu, False, rec.options)
        if watch:
            watch_model(m)
        _MODELS[k] = m
    return _MODELS[k]


def models_for(culture=None, recogniser=None):
    return [(rn, mt, cu, model(rn, mt, cu)) for rn, mt, cu in registered()
            if (culture is None or cu == culture) and (recogniser is None or rn == recogniser)]


def parse_ref(s):
    return dt.datetime.strptime(s[:19], '%Y-%m-%dT%H:%M:%S') if s else None


def call(m, mt, query, ref=None):
    """The client boundary: model.parse with the reference where the model takes one."""
    if mt == 'DateTimeModel':
        return m.parse(query, ref)
    return m.parse(query)


def ent(e):
    """JSON-able deep copy of a ModelResult."""
    if e is None:
        return None
    return {'text': e.text, 'start': e.start, 'end': e.end, 'type_name': e.type_name,
            'resolution': jsonable(e.resolution)}


def jsonable(x):
    if isinstance(x, dict):
        return {str(k): jsonable(v) for k, v in x.items()}
    if isinstance(x, (list, tuple)):
        return [jsonable(v) for v in x]
    if isinstance(x, (str, int, float, bool)) or x is None:
        return x
    return repr(x)


# ----------------------------------------------------------------------------------------------
# swallow monitor: every Model.parse wraps extract+parse in `except Exception: pass`; record what it hides

SWALLOW = collections.Counter()
LAST_SWALLOWED = []          # most recent exceptions (site strings), cleared by the caller
_WATCHED = set()


def _site(tb):
    site = '?'
    for fr in traceback.extract_tb(tb):
        if fr.filename.startswith(bootstrap.LIBROOT):
            site = '%s:%d' % (os.path.relpath(fr.filename, bootstrap.LIBROOT), fr.lineno)
    return site


def _wrap_method(obj, name):
    if id(obj) in _WATCHED and getattr(getattr(obj, name, None), '_rt_wrapped', False):
        return
    orig = getattr(obj, name, None)
    if orig is None or getattr(orig, '_rt_wrapped', False):
        return

    def wrapper(*a, **k):
        try:
            return orig(*a, **k)
        except Exception as e:
            s = '%s@%s' % (type(e).__name__, _site(e.__traceback__))
            SWALLOW[s] += 1
            if len(LAST_SWALLOWED) < 50:
                LAST_SWALLOWED.append(s)
            raise
    wrapper._rt_wrapped = True
    try:
        setattr(obj, name, wrapper)
        _WATCHED.add(id(obj))
    except AttributeError:
        pass


def watch_model(m):
    """Wrap the extract/parse bound methods the model calls inside its try block (instance level)."""
    pairs = []
    if hasattr(m, 'extractor_parser'):
        pairs = [(p.extractor, p.parser) for p in m.extractor_parser]
    elif hasattr(m, 'extractor') and hasattr(m, 'parser'):
        pairs = [(m.extractor, m.parser)]
    for ex, pa in pairs:
        _wrap_method(ex, 'extract')
        _wrap_method(pa, 'parse')


def take_swallowed():
    s = list(LAST_SWALLOWED)
    del LAST_SWALLOWED[:]
    return s


# ----------------------------------------------------------------------------------------------
# Specs corpus

def spec_files(recogniser=None, lang=None):
    pat = os.path.join(SPECS, recogniser or '*', lang or '*', '*.json')
    return sorted(glob.glob(pat))


def py_supported(spec):
    return not ('python' in spec.get('NotSupported', '') or 'python' in spec.get('NotSupportedByDesign', ''))


_SPEC_CACHE = {}


def load_spec(path):
    if path not in _SPEC_CACHE:
        with open(path, encoding='utf-8-sig') as f:
            _SPEC_CACHE[path] = json.load(f)
    return _SPEC_CACHE[path]


def corpus_inputs(culture, supported_only=True, recogniser=None):
    """sorted distinct (input, reference-iso-or-None) of every spec file of the culture's language."""
    out = set()
    for f in spec_files(recogniser):
        lang = f.split(os.sep)[-2]
        cu = LANG_CULTURE.get(lang, 'en-us' if lang == 'EnglishOthers' else None)
        if cu != culture:
            continue
        for s in load_spec(f):
            if supported_only and not py_supported(s):
                continue
            ref = ((s.get('Context') or {}).get('ReferenceDateTime') or None)
            out.add((s['Input'], ref[:19] if ref else None))
    return sorted(out, key=lambda t: (t[0], t[1] or ''))


def corpus_words(culture):
    w = set()
    for q, _ in corpus_inputs(culture):
        w.update(q.split())
    return sorted(w)


# ----------------------------------------------------------------------------------------------
# boundary monitor: every concrete Model.parse, wrapped at class level

_BOUNDARY_CBS = []
_BOUNDARY_ON = [False]
SEQ = [0]
_SEQ_LOCK = threading.Lock()


def _all_model_classes():
    import recognizers_number.number.models as a
    import recognizers_number_with_unit.number_with_unit.models as b
    import recognizers_sequence.sequence.models as c
    import recognizers_choice.choice.models as d
    import recognizers_date_time.date_time.models as e
    from recognizers_text.model import Model
    seen, stack, out = set(), [Model], []
    while stack:
        k = stack.pop()
        for s in k.__subclasses__():
            if s not in seen:
                seen.add(s)
                stack.append(s)
                out.append(s)
    return out


def install_boundary(cb):
    """cb(model, query, reference, result|None, exception|None, seq) is called after every Model.parse of any workload.
    Call events are numbered before invoking and reported after the return (client boundary)."""
    _BOUNDARY_CBS.append(cb)
    if _BOUNDARY_ON[0]:
        return
    _BOUNDARY_ON[0] = True
    for cls in _all_model_classes():
        if 'parse' not in cls.__dict__:
            continue
        orig = cls.__dict__['parse']
        if getattr(orig, '_rt_boundary', False):
            continue

        def make(orig):
            def parse(self, query, *a, **k):
                with _SEQ_LOCK:
                    SEQ[0] += 1
                    seq = SEQ[0]
                ref = a[0] if a else k.get('reference')
                try:
                    res = orig(self, query, *a, **k)
                except Exception as e:
                    for cb in _BOUNDARY_CBS:
                        cb(self, query, ref, None, e, seq)
                    raise
                for cb in _BOUNDARY_CBS:
                    cb(self, query, ref, res, None, seq)
                return res
            parse._rt_boundary = True
            return parse
        setattr(cls, 'parse', make(orig))


def model_tag(m):
    """(model class name, culture or '?') for a model object built through lib.model()"""
    for (rn, mt, cu), mm in _MODELS.items():
        if mm is m:
            return mt, cu
    return type(m).__name__, '?'


def corpus_entity_texts(culture, recogniser=None):
    """sorted distinct (recogniser, entity text) expected by the supported model-level Specs cases of the culture"""
    out = set()
    for f in spec_files(recogniser):
        parts = f.split(os.sep)
        lang, name = parts[-2], parts[-1]
        if LANG_CULTURE.get(lang) != culture or 'Model' not in name:
            continue
        for s in load_spec(f):
            if not py_supported(s):
                continue
            for r in s.get('Results') or []:
                t = r.get('Text')
                if isinstance(t, str) and 1 < len(t) <= 24:
                    out.add((parts[-3], t))
    return sorted(out)
