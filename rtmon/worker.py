"""Child interpreter: runs one job of one checker against the working tree and writes its observations."""
import json
import sys
import time

from . import bootstrap


def main(argv):
    jf, rf = argv[1:3]
    with open(jf) as f:
        doc = json.load(f)
    bootstrap.install()
    from . import lib, runner
    checker = runner.load_checker(doc['pid'])
    ctx = lib.Ctx(doc['pid'], doc['tier'], doc['seed'], doc['job'])
    t0 = time.time()
    checker.run(doc['job'], ctx)
    res = ctx.result()
    for k, v in lib.SWALLOW.items():
        res['swallowed'][k] = res['swallowed'].get(k, 0) + v
    try:
        res['origins'] = bootstrap.assert_origins()
    except bootstrap.Inconclusive as e:
        sys.stdout.write('INCONCLUSIVE-ORIGIN %s\n' % e)
        return 3
    res['job_wall_s'] = round(time.time() - t0, 2)
    with open(rf, 'w') as f:
        json.dump(res, f, ensure_ascii=False, default=str)
    return 0


def replay(checker, doc):
    """Re-execute one recorded failing case against the current tree and print the comparison."""
    from . import lib
    fl = doc['fail']
    ctx = lib.Ctx(doc['property'], doc.get('tier', 'quick'), doc.get('seed', 0), {'replay': True})
    fn = getattr(checker, 'replay_case', None)
    if fn is None:
        print('replay not supported for %s; recorded case follows' % doc['property'])
        print(json.dumps(fl, indent=1, ensure_ascii=False))
        return 2
    fn(fl, ctx)
    print('recorded : mech=%s observed=%s' % (fl.get('mech'), json.dumps(fl.get('observed'), ensure_ascii=False, default=str)[:600]))
    if ctx.fails:
        for f in ctx.fails:
            print('now      : mech=%s observed=%s' % (f.get('mech'), json.dumps(f.get('observed'), ensure_ascii=False, default=str)[:600]))
        print('VIOLATION property=%s replay=%s' % (doc['property'], 'reproduced'))
        return 1
    print('now      : holds (%d evaluations)' % ctx.evals)
    return 0


if __name__ == '__main__':
    sys.exit(main(sys.argv))
