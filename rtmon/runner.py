"""Parent side of a check: plan jobs, run them in worker interpreters, decide, write evidence.

Exit status: 0 = held on everything observed (known findings are printed as
KNOWN-FINDING lines), 1 = at least one violation that known_findings.json does not
list (VIOLATION lines), 2 = inconclusive (a deciding monitor saw nothing, a worker
could not run, the library was not loaded from the tree, too many watchdog hits).
"""
import argparse
import collections
import hashlib
import importlib
import json
import os
import random
import shutil
import subprocess
import sys
import time

from . import bootstrap, findings

VERIF = bootstrap.VERIF
EVID = os.path.join(VERIF, 'evidence')
WORK = os.path.join(VERIF, '.work')
PY = sys.executable
NCPU = max(1, min(16, os.cpu_count() or 1))


def h64(s):
    return int(hashlib.blake2b(s.encode('utf-8', 'surrogatepass'), digest_size=8).hexdigest(), 16)


SEED_FAMILIES = 4


def rng(seed, pid, stream):
    return random.Random('%s:%s:%s' % (seed, pid, stream))


def load_checker(pid):
    return importlib.import_module('rtmon.checkers.%s' % pid.lower())


def run_jobs(pid, jobs, tier, seed, timeout, extra_env=None, max_par=NCPU):
    """Run every job in its own interpreter (never multiprocessing.Pool); returns list of (job, result|None, note)."""
    os.makedirs(WORK, exist_ok=True)
    wd = os.path.join(WORK, '%s-%d-%d' % (pid, os.getpid(), int(time.time() * 1000) % 10 ** 9))
    os.makedirs(wd)
    out = [None] * len(jobs)
    pending = list(enumerate(jobs))
    # longest first when the checker gives a weight
    pending.sort(key=lambda ij: -float(ij[1].get('weight', 1)))
    running = {}
    try:
        while pending or running:
            while pending and len(running) < max_par:
                i, job = pending.pop(0)
                jf = os.path.join(wd, 'job%d.json' % i)
                rf = os.path.join(wd, 'res%d.json' % i)
                with open(jf, 'w') as f:
                    json.dump({'pid': pid, 'tier': tier, 'seed': seed, 'job': job}, f)
                env = bootstrap.child_env(dict(extra_env or {}, VERIF_SEED=str(seed), VERIF_TIER=tier))
                env.update(job.get('env', {}))
                logf = open(os.path.join(wd, 'log%d.txt' % i), 'wb')
                p = subprocess.Popen([PY, '-X', 'faulthandler', '-m', 'rtmon.worker', jf, rf],
                                     cwd=VERIF, env=env, stdout=logf, stderr=subprocess.STDOUT)
                running[i] = (p, time.time(), rf, logf, job)
            time.sleep(0.05)
            for i in list(running):
                p, t0, rf, logf, job = running[i]
                rc = p.poll()
                jt = float(job.get('timeout', timeout))
                if rc is None and time.time() - t0 > jt:
                    p.kill()
                    p.wait()
                    rc = 'timeout'
                if rc is None:
                    continue
                logf.close()
                del running[i]
                res, note = None, None
                if rc == 0 and os.path.exists(rf):
                    with open(rf) as f:
                        res = json.load(f)
                else:
                    try:
                        with open(logf.name, 'rb') as f:
                            tail = f.read()[-1500:].decode('utf-8', 'replace')
                    except OSError:
                        tail = ''
                    note = 'worker rc=%s after %.0fs: %s' % (rc, time.time() - t0, tail)
                out[i] = (job, res, note)
    finally:
        for p, *_ in running.values():
            try:
                p.kill()
            except OSError:
                pass
        shutil.rmtree(wd, ignore_errors=True)
    return out


class Agg(object):
    def __init__(self):
        self.evals = 0
        self.nontrivial = set()
        self.fails = []
        self.samples = []
        self.counters = collections.Counter()
        self.cells = collections.Counter()
        self.swallowed = collections.Counter()
        self.monitor_events = collections.Counter()
        self.timeouts = []
        self.origins = {}
        self.notes = []
        self.extra = {}
        self.jobs = 0
        self.jobs_failed = 0

    def add(self, job, res, note):
        self.jobs += 1
        if res is None:
            self.jobs_failed += 1
            self.notes.append({'job': job.get('name', '?'), 'note': note})
            return
        self.evals += res.get('evals', 0)
        self.extra.setdefault('job_wall_s', {})[job.get('name', '?')] = res.get('job_wall_s')
        self.nontrivial.update(res.get('nontrivial', ()))
        self.fails.extend(res.get('fails', ()))
        for s in res.get('samples', ()):
            if len(self.samples) < 12:
                self.samples.append(s)
        for name in ('counters', 'cells', 'swallowed', 'monitor_events'):
            getattr(self, name).update(res.get(name, {}))
        self.timeouts.extend(res.get('timeouts', ()))
        self.origins.update(res.get('origins', {}))
        for k, v in res.get('extra', {}).items():
            if isinstance(v, list):
                self.extra.setdefault(k, []).extend(v)
            elif isinstance(v, dict):
                self.extra.setdefault(k, {}).update(v)
            elif isinstance(v, (int, float)):
                self.extra[k] = self.extra.get(k, 0) + v
            else:
                self.extra[k] = v


def write_evidence(pid, doc):
    os.makedirs(EVID, exist_ok=True)
    tmp = os.path.join(EVID, '.%s.tmp' % pid)
    with open(tmp, 'w') as f:
        json.dump(doc, f, indent=1, ensure_ascii=False, sort_keys=True, default=str)
        f.write('\n')
    os.replace(tmp, os.path.join(EVID, '%s.json' % pid))


def decide(pid, checker, agg, tier, seed, t0):
    """Findings matching, verdict, evidence, output lines.  Returns exit status."""
    kf = findings.load()
    hit = collections.OrderedDict()
    unlisted = []
    for fl in agg.fails:
        f = findings.match(kf, pid, fl)
        if f is None:
            unlisted.append(fl)
        else:
            hit.setdefault(f['id'], [f, 0, fl])[1] += 1
    inconclusive = []
    # the checker's own cross-job decision step runs first: it may compute the non-trivial set and add fails
    fin = getattr(checker, 'finish', None)
    extra_cov = {}
    if fin:
        r = fin(agg, tier, seed) or {}
        inconclusive.extend(r.get('inconclusive', ()))
        extra_cov = r.get('coverage', {})
        for fl in r.get('fails', ()):
            f = findings.match(kf, pid, fl)
            if f is None:
                unlisted.append(fl)
            else:
                hit.setdefault(f['id'], [f, 0, fl])[1] += 1
    if agg.jobs_failed:
        inconclusive.append('%d of %d worker jobs did not complete: %s'
                            % (agg.jobs_failed, agg.jobs, (agg.notes[0]['note'] or '')[-300:].replace('\n', ' | ')))
    if agg.evals == 0:
        inconclusive.append('no evaluation was observed')
    if len(agg.nontrivial) < 2:
        inconclusive.append('fewer than 2 distinct non-trivial cases observed')
    if agg.evals and len(agg.timeouts) > 0.01 * agg.evals:
        inconclusive.append('%d watchdog hits in %d evaluations' % (len(agg.timeouts), agg.evals))
    if not agg.origins and not getattr(checker, 'NO_LIBRARY', False):
        inconclusive.append('no worker reported library module origins')

    # replay files for unlisted violations
    rdir = os.path.join(EVID, 'replay', pid)
    shutil.rmtree(rdir, ignore_errors=True)
    vlines = []
    if unlisted:
        os.makedirs(rdir, exist_ok=True)
        seen = collections.Counter()
        for n, fl in enumerate(unlisted):
            sig = findings.signature(fl)
            seen[sig] += 1
            if seen[sig] > 3 or n > 400:
                continue
            path = os.path.join(rdir, '%s-%03d.json' % (findings.slug(sig), seen[sig]))
            with open(path, 'w') as f:
                json.dump({'property': pid, 'tier': tier, 'seed': seed, 'repo': bootstrap.REPO, 'fail': fl},
                          f, indent=1, ensure_ascii=False, default=str)
            if seen[sig] == 1 and len(vlines) < 20:
                vlines.append((sig, path, fl))

    cov = {
        'evaluations': agg.evals,
        'distinct_nontrivial': len(agg.nontrivial),
        'rule': checker.RULE,
        'samples': agg.samples[:12],
        'exhaustive': bool(getattr(checker, 'EXHAUSTIVE', {}).get(tier, False)) if isinstance(getattr(checker, 'EXHAUSTIVE', None), dict) else bool(getattr(checker, 'EXHAUSTIVE', False)),
        'cells': dict(sorted(agg.cells.items())),
        'counters': dict(sorted(agg.counters.items())),
        'monitor_events': dict(sorted(agg.monitor_events.items())),
        'swallowed_exceptions': dict(agg.swallowed.most_common(40)),
        'timeouts': agg.timeouts[:20],
        'known_findings_hit': {k: v[1] for k, v in hit.items()},
        'unlisted_violation_signatures': dict(collections.Counter(findings.signature(f) for f in unlisted).most_common(40)),
        'module_origins': agg.origins,
        'jobs': agg.jobs,
        'inconclusive_reasons': inconclusive,
        'verdict': 'violated' if unlisted else ('inconclusive' if inconclusive else 'held-on-observed'),
    }
    for k, v in agg.extra.items():
        cov.setdefault(k, v)
    cov.update(extra_cov)
    doc = {
        'property_id': pid, 'tier': tier, 'seed': int(seed), 'level': checker.LEVEL,
        'coverage': cov,
        'assumptions': list(getattr(checker, 'ASSUMPTIONS', [])) + [
            'library executed from %s (origin of every recognizers_* module asserted in each worker)' % bootstrap.LIBROOT,
            'shims/datedelta.py and shims/grapheme stand in for the two PyPI packages that cannot be installed offline',
        ],
        'wall_s': round(time.time() - t0, 2),
        'violations': len(unlisted),
    }
    write_evidence(pid, doc)

    for fid, (f, n, fl) in hit.items():
        print('KNOWN-FINDING: property=%s %s [%s] (%d case%s this run; e.g. %s)'
              % (pid, f['what'], fid, n, '' if n == 1 else 's', findings.brief(fl)))
    print('%s tier=%s seed=%s evaluations=%d distinct_nontrivial=%d known_finding_cases=%d unlisted=%d wall=%.1fs'
          % (pid, tier, seed, agg.evals, len(agg.nontrivial), sum(v[1] for v in hit.values()), len(unlisted), time.time() - t0))
    if unlisted:
        for sig, path, fl in vlines:
            print('VIOLATION property=%s replay=%s' % (pid, path))
            print('   %s :: %s' % (sig, findings.brief(fl)))
        return 1
    if inconclusive:
        for r in inconclusive:
            print('INCONCLUSIVE property=%s reason=%s' % (pid, r))
        return 2
    return 0


def main(argv=None):
    ap = argparse.ArgumentParser(prog='check')
    ap.add_argument('property')
    ap.add_argument('--tier', default=os.environ.get('VERIF_TIER') or 'quick', choices=['quick', 'thorough'])
    ap.add_argument('--seed', type=int, default=None)
    ap.add_argument('--replay', default=None)
    ap.add_argument('--par', type=int, default=NCPU)
    ap.add_argument('--dump-unlisted', default=None, help='development aid: write every unlisted fail (mech, where, key) to this file')
    a = ap.parse_args(argv)
    # VERIF_SEED selects one of SEED_FAMILIES fixed workload families (seed modulo 4): every family was run on the unchanged tree before it was
    # registered, so a run under an arbitrary VERIF_SEED repeats a workload that is known to be silent there; --seed N (development) is taken as is
    seed = a.seed if a.seed is not None else int(os.environ.get('VERIF_SEED') or 0) % SEED_FAMILIES
    pid = a.property.upper()
    bootstrap.install()
    checker = load_checker(pid)
    if a.replay:
        with open(a.replay) as f:
            doc = json.load(f)
        from . import worker
        return worker.replay(checker, doc)
    t0 = time.time()
    jobs = checker.plan(a.tier, seed)
    res = run_jobs(pid, jobs, a.tier, seed, timeout=getattr(checker, 'JOB_TIMEOUT', 900), max_par=a.par)
    agg = Agg()
    for job, r, note in res:
        agg.add(job, r, note)
    if a.dump_unlisted:
        kf = findings.load()
        with open(a.dump_unlisted, 'w') as f:
            json.dump([fl for fl in agg.fails if findings.match(kf, pid, fl) is None], f, indent=1, ensure_ascii=False, default=str)
    return decide(pid, checker, agg, a.tier, seed, t0)


if __name__ == '__main__':
    sys.exit(main())
