"""Output-shape monitors shared by C01 (spans), C11 (date-time value well-formedness) and C12 (overlap).

One boundary monitor (lib.install_boundary) sees every Model.parse return of every workload:
  W-corpus  every Python-supported Specs input of a culture x every registered model of that culture
  W-noise   strings from a closed hostile token pool x every model of the culture
  W-gen     the generator workloads of the other checkers (their expressions in carrier sentences)
  W-multi   2-4 generated expressions per sentence separated by filler words
The per-property oracle is applied to each return event; verdicts are decided on those events.
"""
import datetime as dt
import importlib
import re

from rtmon import lib, dtlib

FW = {'０': '0', '１': '1', '２': '2', '３': '3', '４': '4', '５': '5', '６': '6', '７': '7', '８': '8', '９': '9', '：': ':', '－': '-', '，': ',',
      '／': '/', 'Ｇ': 'G', 'Ｍ': 'M', 'Ｔ': 'T', 'Ｋ': 'K', 'ｋ': 'k', '．': '.', '（': '(', '）': ')', '％': '%', '、': ','}


def N(s):
    """harness normaliser: the 24 documented full-width pairs + char-wise lower-casing that never changes length"""
    out = []
    for c in s:
        c = FW.get(c, c)
        l = c.lower()
        out.append(l if len(l) == 1 else c)
    return ''.join(out)


def N2(s):
    """second accepted reading of 'lower-casing': plain str.lower() on both sides (the parsers lower-case the entity TEXT again,
    which expands U+0130 in the text while the offsets stay exact; the slice is still cut from the original query)"""
    return ''.join(FW.get(c, c) for c in s).lower()


CULTURES = ['en-us', 'es-es', 'es-mx', 'fr-fr', 'pt-br', 'it-it', 'de-de', 'nl-nl', 'zh-cn', 'ja-jp']
NOISE_EXTRA = ['12', '3.5', '1,000', '0', '-7', '99%', '$', '€', '@', '#', '.', ',', '-', '/', '(', ')', ':', '１２', '３．５', '：', '％', '（', '）', '、',
               '中', '三', '十', '年', '月', '日', '点', ' ', '👍', 'ß', 'K', 'kB', 'K', 'é', '5pm', '10:30', '2019-02-30', '25:00',
               'İ', 'İstanbul', 'Ⅻ', 'ǅ', '1e5', '1/2', '::1', '#x', 'a@b.co']
GEN_QUICK = ['c06', 'c07', 'c13', 'c20']
GEN_ALL = ['c03', 'c04', 'c05', 'c06', 'c07', 'c08', 'c09', 'c10', 'c13', 'c20']


# ------------------------------------------------------------------------------------------- oracles

def oracle_c01(ctx, mt, cu, q, ref, res, seq):
    key = '%s|%s|%s|%s' % (cu, mt, q, ref.isoformat() if ref else '')
    where = {'model': mt, 'culture': cu}
    case = {'model': mt, 'culture': cu, 'query': q, 'reference': ref.isoformat() if ref else None}
    ents = [lib.ent(e) for e in res]
    ctx.observe(key=key, nontrivial=bool(res), cell='%s:%s' % (mt, cu), sample={'model': mt, 'culture': cu, 'query': q, 'entities': ents[:4]} if res else None)
    for e in res:
        mech = None
        if e is None:
            mech = 'none-entity'
        elif not (isinstance(e.start, int) and isinstance(e.end, int)):
            mech = 'non-int-offsets'
        elif not (0 <= e.start <= e.end < len(q)):
            if e.end == e.start - 1 and not (e.text or '').strip():
                mech = 'zero-length-entity'
            elif e.start < 0:
                mech = 'negative-start'
            elif e.end >= len(q):
                mech = 'end-beyond-query'
            else:
                mech = 'start-after-end'
        else:
            sl = q[e.start:e.end + 1]
            if not sl.strip():
                mech = 'blank-slice'
            elif N(sl).strip() != N(e.text or '').strip() and N2(sl).strip() != N2(e.text or '').strip():
                if N(e.text or '').strip() in N(q):
                    mech = 'text-elsewhere-in-query'
                else:
                    mech = 'text-not-in-query'
        if mech:
            ctx.fail(mech, where, key, case, 'entity.text == normalised query[start..end]', ents)
            break
    if cu == 'zh-cn' and mt == 'DateTimeModel':
        from rtmon.checkers import c01
        ctx.event('zh_add_mod_calls', c01.ZH_ADD_MOD['calls'])
        c01.ZH_ADD_MOD['changed'] = False
        c01.ZH_ADD_MOD['calls'] = 0


def oracle_c12(ctx, mt, cu, q, ref, res, seq):
    key = '%s|%s|%s|%s' % (cu, mt, q, ref.isoformat() if ref else '')
    where = {'model': mt, 'culture': cu}
    ctx.observe(key=key, nontrivial=len(res) >= 2, cell='%s:%s' % (mt, cu),
                sample={'model': mt, 'culture': cu, 'query': q, 'spans': [[e.start, e.end, e.text] for e in res if e is not None][:6]} if len(res) >= 2 else None)
    spans = sorted(((e.start, e.end, e.type_name, e.text) for e in res if e is not None and isinstance(e.start, int) and isinstance(e.end, int)), key=lambda t: (t[0], t[1]))
    for a, b in zip(spans, spans[1:]):
        if b[0] <= a[1]:
            rel = 'same-span' if (a[0], a[1]) == (b[0], b[1]) else 'same-start' if a[0] == b[0] else 'contained' if b[1] <= a[1] else 'crossing'
            mech = classify_overlap(mt, cu, q, a, b, rel)
            ctx.fail(mech, where, key, {'model': mt, 'culture': cu, 'query': q, 'reference': ref.isoformat() if ref else None},
                     'pairwise disjoint spans', {'a': list(a), 'b': list(b), 'all': [list(s) for s in spans][:10], 'trace': TRACE.get(seq_key(q))})
            return


D_RE = r'(\d{4})-(\d{2})-(\d{2})'
T_RE = r'(\d{2}):(\d{2}):(\d{2})'


def vdate(s):
    m = re.fullmatch(D_RE, s or '')
    if not m:
        return False
    try:
        dt.date(*map(int, m.groups()))
        return True
    except ValueError:
        return False


def vtime(s):
    m = re.fullmatch(T_RE, s or '')
    if not m:
        return False
    h, mi, se = map(int, m.groups())
    return h < 24 and mi < 60 and se < 60


def vdt(s):
    p = (s or '').split(' ')
    return len(p) == 2 and vdate(p[0]) and vtime(p[1])


def value_problems(type_name, v):
    """problems of ONE resolution value of a date-time entity (list of mechanism strings)"""
    out = []
    ty = v.get('type')
    if type_name != 'datetimeV2.' + str(ty):
        out.append('type-name-differs-from-value-type')
    val, st, en, tx = v.get('value'), v.get('start'), v.get('end'), v.get('timex')
    if val == 'not resolved':
        return out
    # the library's own placeholder for 'no valid date' must never leak into a value
    for x in (val, st, en):
        if isinstance(x, str) and x.startswith('0001-01-01'):
            out.append('min-value-placeholder-emitted')
            return out
    if ty in ('date', 'time', 'datetime'):
        f = {'date': vdate, 'time': vtime, 'datetime': vdt}[ty]
        present = [x for x in (val, st, en) if x is not None]
        if not present:
            out.append(ty + '-without-value')
        for x in present:
            if not f(str(x)):
                out.append('invalid-' + ty + '-value')
                break
        if val is not None and tx and ty == 'date' and re.fullmatch(D_RE, tx) and tx != val:
            out.append('definite-date-timex-differs-from-value')
        if val is not None and tx and ty == 'time' and re.fullmatch(r'T\d{2}(:\d{2}(:\d{2})?)?', tx):
            t = tx[1:] + (':00' if len(tx) == 6 else ':00:00' if len(tx) == 3 else '')
            if t == '24:00:00':      # ISO 8601 end-of-day midnight is the clock reading 00:00:00
                t = '00:00:00'
            if t != val:
                out.append('definite-time-timex-differs-from-value')
        if val is not None and tx and ty == 'datetime' and re.fullmatch(D_RE + r'T\d{2}(:\d{2}(:\d{2})?)?', tx):
            d_, t_ = tx.split('T')
            t_ = t_ + (':00' if len(t_) == 5 else ':00:00' if len(t_) == 2 else '')
            if d_ + ' ' + t_ != val:
                out.append('definite-datetime-timex-differs-from-value')
    elif ty == 'duration':
        if val is None or not re.fullmatch(r'\d+(\.\d+)?', str(val)):
            out.append('duration-not-a-nonnegative-number-of-seconds')
    elif ty in ('daterange', 'timerange', 'datetimerange'):
        g = {'daterange': vdate, 'timerange': vtime, 'datetimerange': vdt}[ty]
        if st is None and en is None and val is None:
            out.append(ty + '-without-endpoints')
        if st is None and en is None and val is not None:
            out.append(ty + '-carries-a-bare-value-instead-of-endpoints')
        for x in (st, en):
            if x is not None and not g(str(x)):
                out.append('invalid-' + ty + '-endpoint')
                break
        if ty == 'daterange' and st and en and vdate(st) and vdate(en) and not v.get('Mod') and not st < en:
            out.append('daterange-start-not-before-end')
    elif ty == 'set':
        pass
    else:
        out.append('unknown-value-type')
    return out


def oracle_c11(ctx, mt, cu, q, ref, res, seq):
    if mt != 'DateTimeModel':
        return
    key = '%s|%s|%s' % (cu, q, ref.isoformat() if ref else '')
    where = {'model': mt, 'culture': cu}
    nvals = 0
    for e in res:
        if e is None:
            continue
        if e.resolution is None:
            ctx.count('unresolved_entities')
            continue
        vals = e.resolution.get('values')
        if not isinstance(vals, list) or not vals:
            ctx.fail('resolution-without-values', where, key, {'culture': cu, 'query': q, 'reference': ref.isoformat() if ref else None}, None, lib.ent(e))
            continue
        for v in vals:
            nvals += 1
            ctx.event('values_validated')
            probs = value_problems(e.type_name, v)
            if probs:
                ctx.fail(probs[0] + classify_c11(cu, q, e, v, probs[0]), where, key, {'culture': cu, 'query': q, 'reference': ref.isoformat() if ref else None},
                         'well-formed %s value' % v.get('type'), {'text': e.text, 'type_name': e.type_name, 'value': lib.jsonable(v)})
                break
    ctx.observe(key=key, nontrivial=nvals > 0, cell='values:' + cu,
                sample={'culture': cu, 'query': q, 'entities': [lib.ent(e) for e in res][:3]} if nvals else None)


def classify_c11(cu, q, e, v, prob):
    return ''


def classify_overlap(mt, cu, q, a, b, rel):
    # known-finding classifier: French 'cent' is both the numeral 100 and a currency fraction; after a number it is reported a second
    # time as a unit without amount, inside the compound amount that already covers it
    if cu == 'fr-fr' and mt == 'CurrencyModel' and rel == 'contained' and str(b[3]).strip().lower() == 'cent':
        return 'overlap:fr-bare-cent-inside-amount'
    # known-finding classifier: 'the day after tomorrow' / 'the day before yesterday' written with irregular white space inside
    if cu == 'en-us' and mt == 'DateTimeModel' and rel == 'crossing' and re.fullmatch(r'the day\s+(after|before)', str(a[3])) \
            and re.fullmatch(r'(after|before)\s+(tomorrow|yesterday)', str(b[3])) and re.search(r'\s{2,}|[\t\n\u00a0]', q[a[0]:b[1] + 1]):
        return 'overlap:en-day-after-tomorrow-split-by-irregular-white-space'
    # known-finding classifier: one participant is a date-time entity that swallowed a filler separating two expressions
    # (pt-br: PrepositionRegex matches the empty string, so ANY text between a date and a time is a connector; nl-nl: 'tot <time> . <n> op de <n>')
    if mt == 'DateTimeModel' and cu in ('pt-br', 'nl-nl', 'de-de', 'fr-fr'):
        fills = [f.strip() for f in CULT_FILLERS.get(cu, []) + FILLERS if f.strip()]
        if any((' %s ' % f) in (' %s ' % str(x[3])) or (f in '.;|' and f in str(x[3])) for x in (a, b) for f in fills):
            return 'overlap:date-time-entity-spans-a-filler'
    return 'overlap:' + rel


ORACLES = {'C01': oracle_c01, 'C11': oracle_c11, 'C12': oracle_c12}
# workloads that are outside a property's quantifier are still driven (the monitors are cheap) but only REPORTED:
# C12 quantifies over Specs inputs and generated well-formed expressions, C11 over Specs inputs and the C06-C10
# expressions; neither includes noise.  C01 names the noise pool explicitly.
# wsentity inserts a blank INSIDE an entity expression (no longer a well-formed expression) -> noise-like: judged by C01 only
REPORT_ONLY = {'C01': (), 'C11': ('noise', 'multi', 'multicorpus', 'wsentity', 'wsperturb', 'edge'), 'C12': ('noise', 'wsentity', 'wsperturb-cjk')}
TRACE = {}


def seq_key(q):
    return q


# ------------------------------------------------------------------------------------------- workloads

def noise_query(r, words, cu):
    k = r.randrange(1, 16)
    toks = [r.choice(words) if r.random() < 0.7 else r.choice(NOISE_EXTRA) for _ in range(k)]
    sep = ' ' if cu not in ('zh-cn', 'ja-jp') or r.random() < 0.5 else ''
    return sep.join(toks)


def multi_pool(r):
    """expressions of several entity types for the several-per-sentence workload (English)"""
    d = dtlib.rand_date(r)
    pool = [dtlib.EN_LAYOUTS[r.choice(sorted(dtlib.EN_LAYOUTS))](d), '%02d:%02d' % (r.randrange(24), r.randrange(60)), '%d%s' % (r.randrange(1, 13), r.choice(['am', 'pm'])),
            'tomorrow', 'next %s' % r.choice(dtlib.WD_EN), '%d days ago' % r.randrange(1, 400), '%d %s' % (r.randrange(1, 90), r.choice(['hours', 'weeks', 'months'])),
            str(r.randrange(0, 10 ** r.randrange(1, 9))), '%d.%d' % (r.randrange(1000), r.randrange(100)), '-%d' % r.randrange(1, 500), '%d%%' % r.randrange(1, 100),
            'twenty %s' % r.choice(['one', 'two', 'five']), 'three hundred and five', 'the %s' % r.choice(['third', '21st', 'second']),
            '$%d' % r.randrange(1, 5000), '%d dollars' % r.randrange(1, 900), '%d euros and %d cents' % (r.randrange(1, 90), r.randrange(1, 99)),
            '%d km' % r.randrange(1, 500), '%d degrees celsius' % r.randrange(-20, 45), '%d years old' % r.randrange(1, 99),
            '%d.%d.%d.%d' % tuple(r.randrange(256) for _ in range(4)), 'user%d@example.com' % r.randrange(100), 'https://www.example.org/a%d' % r.randrange(100),
            '#tag%d' % r.randrange(100), '@name%d' % r.randrange(100), '(%d) %d-%04d' % (r.randrange(200, 999), r.randrange(200, 999), r.randrange(10000)),
            'minus %s' % r.choice(['two', 'seven', 'thirty']), 'negative %d' % r.randrange(1, 90), 'minus %d' % r.randrange(1, 90),
            'yes', 'no', 'from %s to %s' % (d.isoformat(), (d + dt.timedelta(days=r.randrange(1, 60))).isoformat())]
    # date-time expressions carrying one or two modifiers (before/after/since/until x around/about): the merged
    # extractor and parser widen and restore the span for these
    base = [pool[0], pool[1], pool[2], 'tomorrow', 'next %s' % r.choice(dtlib.WD_EN), '%s %d' % (r.choice(dtlib.MON_EN), r.randrange(1, 28)), '%d' % r.randrange(1990, 2030),
            '%d %s' % (r.randrange(2, 12), r.choice(['o\'clock', 'am', 'pm']))]
    mods = ['before', 'after', 'since', 'until', 'by', 'around', 'about', 'starting', 'no later than', 'prior to', 'since around', 'before around', 'after about',
            'starting around', 'until about', 'from around']
    for _ in range(6):
        pool.append('%s %s' % (r.choice(mods), r.choice(base)))
    return pool


PHONES = ['(0) 644444444', '(0)1134960009', '0161 496 0123', '+44 20 7946 0958', '(020) 7946 0958', '1-800-555-1234', '+86 138 0013 8000', '(06) 12345678',
          '+31 6 12345678', '+49 30 123456', '+33 1 23 45 67 89', '(11) 91234-5678', '400-123-4567', '555-1234', '+1 (206) 555-1234']
LONG_FILL = 'the quick brown fox jumps over the lazy dog while nobody is looking ; '
EDGE_CONTEXTS = [LONG_FILL * 24 + '{}', '{} ' + LONG_FILL * 24, LONG_FILL * 12 + '{} ' + LONG_FILL * 12, '{}', 'x {}', '{} y', 'call  {}  now', 'tel:\t{}', '{}\n', '\n{}', '\u00a0{}\u00a0', '({})', '"{}"', '{},', ' {} ', 'a\t{}\tb', '{} .', '- {} -']
FILLERS = [' and then ', ' , also ', ' ; we saw ', ' but not ', ' . Later ', ' while ']


# culture -> (range templates over {a} {b} and a date expression {d}, date expressions incl. none, am/pm style markers for one endpoint)
HOUR_TEMPLATES = {
    'en-us': (['from {a} to {b} {d}', 'between {a} and {b} {d}', '{d} from {a} to {b}', '{d} {a}-{b}', '{d} {a} to {b}'],
              ['', 'tomorrow', 'on monday', 'on 1/1/2015', 'next friday', 'on March 3rd'], ['{}pm', '{} am', "{} o'clock", '']),
    'es-es': (['entre las {a} y las {b} {d}', 'de {a} a {b} {d}', '{d} de las {a} a las {b}'], ['', 'del lunes', 'mañana', 'el 3 de marzo'], ['{}pm', '{} de la tarde', '']),
    'it-it': (['dalle {a} alle {b} {d}', 'tra le {a} e le {b} {d}', '{d} dalle {a} alle {b}'], ['', 'domani', 'lunedì', 'il 3 marzo'], ['{}pm', '{} di sera', '']),
    'fr-fr': (['de {a}h à {b}h {d}', 'entre {a}h et {b}h {d}', '{d} de {a} à {b} heures'], ['', 'demain', 'lundi', 'le 3 mars'], ['{}pm', '']),
    'pt-br': (['das {a} às {b} {d}', 'entre as {a} e as {b} {d}', '{d} das {a} às {b}'], ['', 'amanhã', 'segunda-feira', 'em 3 de março'], ['{}pm', '{} da tarde', '']),
    'de-de': (['von {a} bis {b} Uhr {d}', '{d} von {a} bis {b} Uhr', '{d} zwischen {a} und {b} Uhr'], ['', 'morgen', 'am Montag', 'am 3. März'], ['{}pm', '']),
    'nl-nl': (['van {a} tot {b} {d}', '{d} van {a} tot {b} uur', 'tussen {a} en {b} uur {d}'], ['', 'morgen', 'op maandag', 'op 3 maart'], ['{}pm', "{} 's middags", '']),
    'zh-cn': (['{d}{a}点到{b}点', '{d}从{a}点到{b}点', '{d}{a}点至{b}点'], ['', '明天', '周一', '3月3日', '明天下午', '今晚'], ['下午{}', '']),
}


# fillers without a temporal or numeric meaning of their own (a filler like 'Later' / 'depois' / '然后' would itself be part of an
# expression, and a full stop after a month abbreviation - 'sept . 4:00' - is part of a date)
CULT_FILLERS = {'*': [' ; ', ' | '], 'en-us': [' ; ', ' | ', ' and also ', ' but not '], 'es-es': [' ; ', ' | ', ' y también ', ' pero no '],
                'es-mx': [' ; ', ' | ', ' y también '], 'fr-fr': [' ; ', ' | ', ' et aussi ', ' mais pas '], 'pt-br': [' ; ', ' | ', ' e também ', ' mas não '],
                'it-it': [' ; ', ' | ', ' e anche ', ' ma non '], 'de-de': [' ; ', ' | ', ' und auch ', ' aber nicht '], 'nl-nl': [' ; ', ' | ', ' en ook ', ' maar niet '],
                'zh-cn': ['；', ' | ', '，还有', ' ; '], 'ja-jp': ['；', ' | ', '、そして', ' ; ']}
INSIDE_RANGE = {
    'en-us': (['from {a} to {b} {m}', 'between {a} and {b} {m}', '{m} {a} to {b}', '{m} {a}-{b}', 'from {m} {a} to {m2} {b}', '{m} {a} - {m2} {b}'], [x for x in dtlib.MON_EN]),
    'es-es': (['del {a} al {b} de {m}', 'entre el {a} y el {b} de {m}', 'del {a} de {m} al {b} de {m2}'], dtlib.CULT['es-es']['months']),
    'fr-fr': (['du {a} au {b} {m}', 'entre le {a} et le {b} {m}', 'du {a} {m} au {b} {m2}'], dtlib.CULT['fr-fr']['months']),
    'pt-br': (['de {a} a {b} de {m}', 'entre {a} e {b} de {m}'], dtlib.CULT['pt-br']['months']),
    'it-it': (['dal {a} al {b} {m}', 'dal {a} {m} al {b} {m2}'], dtlib.CULT['it-it']['months']),
    'de-de': (['vom {a}. bis {b}. {m}', 'vom {a}. {m} bis {b}. {m2}'], dtlib.CULT['de-de']['months']),
    'nl-nl': (['van {a} tot {b} {m}', 'van {a} {m} tot {b} {m2}'], dtlib.CULT['nl-nl']['months']),
}
EN_MODS = ['before', 'after', 'since', 'until', 'by', 'around', 'about', 'starting', 'starting from', 'no later than', 'prior to', 'since around', 'since about', 'before around',
           'after about', 'after around', 'starting around', 'starting from around', 'until about', 'until around', 'from around', 'by around']
CULT_MOD_EXPR = {
    'es-es': ['desde alrededor del 5 de mayo', 'desde el 5 de mayo', 'antes del 5 de mayo', 'después de las 3pm', 'desde alrededor de las 3pm', 'hasta alrededor de las 3pm', 'alrededor de las 3pm'],
    'fr-fr': ['depuis environ 13 heures', 'depuis 13 heures', 'avant le 5 mai', 'après 15h', 'depuis environ le 5 mai', "jusqu'à environ 15h", 'vers 15h'],
    'pt-br': ['desde cerca de 5 de maio', 'desde 5 de maio', 'antes de 5 de maio', 'depois das 15h', 'desde cerca das 15h', 'até cerca das 15h'],
    'nl-nl': ['sinds rond 13.00', 'sinds 13.00', 'voor 5 mei', 'na 15 uur', 'sinds ongeveer 5 mei', 'tot ongeveer 15 uur', 'rond 15 uur'],
    'de-de': ['seit etwa 15 Uhr', 'seit 15 Uhr', 'vor dem 5. Mai', 'nach 15 Uhr', 'seit ungefähr dem 5. Mai', 'bis etwa 15 Uhr', 'gegen 15 Uhr'],
    'it-it': ['da circa le 15', 'dalle 15', 'prima del 5 maggio', 'dopo le 15', 'da circa il 5 maggio', 'fino alle 15 circa', 'verso le 15'],
}
# culture -> (trailing modifier phrases, leading modifier phrases, simple date-time expressions, joins)
MOD_PAIRS = {
    'en-us': (['or later', 'or earlier', 'or after', 'or before', 'and later'], ['before', 'after', 'since', 'until', 'around'],
              ['monday', 'friday', '2010', '2015', '3 pm', '5 pm', 'tomorrow', 'May 5', 'next week', '10:30'], [', and ', ' , as well as ', ' ; ', ' and also ']),
    'es-es': (['o más tarde', 'o después', 'o antes'], ['antes de', 'después de', 'desde'], ['el lunes', 'el viernes', 'las 3 pm', 'las 5 pm', '2010', 'mañana'], [', o ', ' ; ', ' y también ']),
    'fr-fr': (['ou plus tard', 'ou après', 'ou avant'], ['avant', 'après', 'depuis'], ['lundi', 'vendredi', '15h', '17h', '2010', 'demain'], [', ou ', ' ; ', ' et aussi ']),
    'pt-br': (['ou mais tarde', 'ou depois', 'ou antes'], ['antes de', 'depois de', 'desde'], ['segunda-feira', 'sexta-feira', '15h', '17h', '2010', 'amanhã'], [', ou ', ' ; ', ' e também ']),
    'it-it': (['o più tardi', 'o dopo', 'o prima'], ['prima di', 'dopo', 'da'], ['lunedì', 'venerdì', 'le 15', 'le 17', '2010', 'domani'], [', o ', ' ; ', ' e anche ']),
    'de-de': (['oder später', 'oder danach', 'oder früher'], ['vor', 'nach', 'seit'], ['Montag', 'Freitag', '15 Uhr', '17 Uhr', '2010', 'morgen'], [', oder ', ' ; ', ' und auch ']),
    'nl-nl': (['of later', 'of daarna', 'of eerder'], ['voor', 'na', 'sinds'], ['maandag', 'vrijdag', '15.00', '17.00', '2010', 'morgen'], [', of ', ' ; ', ' en ook ']),
}
UNITPAIR_CULTURES = ['en-us', 'es-es', 'fr-fr', 'pt-br', 'it-it', 'de-de', 'nl-nl']
UNITPAIR_DIMS = {'en-us': ['km', 'meters', 'miles', 'kg', 'pounds', 'liters', 'feet', 'inches'], 'de-de': ['km', 'Meter', 'kg', 'Liter', 'Zentimeter'],
                 'es-es': ['km', 'metros', 'kg', 'litros'], 'fr-fr': ['km', 'mètres', 'kg', 'litres'], 'it-it': ['km', 'metri', 'kg', 'litri'],
                 'pt-br': ['km', 'metros', 'kg', 'litros'], 'nl-nl': ['km', 'meter', 'kg', 'liter']}


def plan(pid, tier, seed):
    jobs = []
    for cu in CULTURES:
        sh = {'en-us': 8, 'zh-cn': 3, 'nl-nl': 3}.get(cu, 2) if tier == 'quick' else {'en-us': 16, 'zh-cn': 5, 'nl-nl': 5}.get(cu, 4)
        for s in range(sh):
            jobs.append({'name': 'corpus-%s-%d' % (cu, s), 'kind': 'corpus', 'culture': cu, 'shard': s, 'shards': sh, 'weight': 4})
        for s in range(2 if tier == 'quick' else 4):
            jobs.append({'name': 'noise-%s-%d' % (cu, s), 'kind': 'noise', 'culture': cu, 'shard': s, 'weight': 3})
    for s in range(2 if tier == 'quick' else 6):
        jobs.append({'name': 'multi-%d' % s, 'kind': 'multi', 'shard': s, 'weight': 2})
    for cu in CULTURES:
        for s in range(1 if tier == 'quick' else 3):
            jobs.append({'name': 'multicorpus-%s-%d' % (cu, s), 'kind': 'multicorpus', 'culture': cu, 'shard': s, 'weight': 2})
    if pid != 'C11':
        for s in range(2 if tier == 'quick' else 4):
            jobs.append({'name': 'edge-%d' % s, 'kind': 'edge', 'shard': s, 'weight': 2})
        for cu in UNITPAIR_CULTURES:
            jobs.append({'name': 'unitpairs-%s' % cu, 'kind': 'unitpairs', 'culture': cu, 'weight': 2})
        jobs.append({'name': 'suffixpairs', 'kind': 'suffixpairs', 'weight': 2})
        for cu in UNITPAIR_CULTURES:
            jobs.append({'name': 'unitorder-%s' % cu, 'kind': 'unitorder', 'culture': cu, 'weight': 2})
        for cu in CULTURES:
            sh = 1 if tier == 'quick' else 3
            for s in range(sh):
                jobs.append({'name': 'ws-%s-%d' % (cu, s), 'kind': 'wsperturb', 'culture': cu, 'shard': s, 'shards': sh, 'weight': 2})
            sh = (2 if cu in ('zh-cn', 'en-us') else 1) if tier == 'quick' else 4
            for s in range(sh):
                jobs.append({'name': 'wsent-%s-%d' % (cu, s), 'kind': 'wsentity', 'culture': cu, 'shard': s, 'shards': sh, 'weight': 2})
    gens = GEN_QUICK if tier == 'quick' else GEN_ALL
    if pid == 'C12' and tier == 'quick':
        gens = gens + ['c05']          # the unit-table walk: multi-token spellings of which the number takes only a part
    if pid == 'C11':
        gens = [g for g in gens if g in ('c06', 'c07', 'c08', 'c09', 'c10')] if tier == 'thorough' else ['c06', 'c07']
        jobs.append({'name': 'invalid-dates', 'kind': 'invalid', 'weight': 2})
        for cu in HOUR_TEMPLATES:
            jobs.append({'name': 'hourgrid-%s' % cu, 'kind': 'hourgrid', 'culture': cu, 'weight': 2})
        jobs.append({'name': 'modifiers', 'kind': 'modifiers', 'weight': 2})
        jobs.append({'name': 'insiderange', 'kind': 'insiderange', 'weight': 2})
    for g in gens:
        try:
            mod = importlib.import_module('rtmon.checkers.' + g)
        except ImportError:
            continue
        for sj in mod.plan('quick', seed):
            jobs.append({'name': 'gen-%s-%s' % (g, sj.get('name')), 'kind': 'gen', 'checker': g, 'sub': sj, 'weight': 2})
    return jobs


def run(pid, job, ctx):
    oracle = ORACLES[pid]
    hooks = getattr(importlib.import_module('rtmon.checkers.' + pid.lower()), 'install_hooks', None)
    if hooks:
        hooks(ctx)
    state = {'depth': 0}

    real_fail = ctx.fail

    def fail_or_report(mech, where=None, *a, **k):
        if ctx.workload in REPORT_ONLY[pid]:
            ctx.count('reported_only:%s:%s' % (ctx.workload, mech.split(':')[0]))
            return
        where = dict(where or {})
        where['workload'] = ctx.workload
        if ctx.workload.startswith('ws') and a and isinstance(a[0], str) and len(a) > 1 and isinstance(a[1], dict) and 'query' in a[1]:
            # a white-space perturbation of an input is identified, for the known-findings file, by the input it was made from:
            # the query inside the key is written with single blanks (the case keeps the exact perturbed query)
            q = a[1]['query']
            a = (a[0].replace(q, ' '.join(q.split())),) + tuple(a[1:])
        real_fail(mech, where, *a, **k)
    ctx.fail = fail_or_report

    def cb(m, q, ref, res, exc, seq):
        ctx.event('boundary_returns' if exc is None else 'boundary_raises')
        if exc is not None:
            mt, cu = lib.model_tag(m)
            ctx.fail('parse-raised:' + type(exc).__name__, {'model': mt, 'culture': cu}, '%s|%s|%s' % (cu, mt, q), {'model': mt, 'culture': cu, 'query': q}, None, repr(exc))
            return
        mt, cu = lib.model_tag(m)
        oracle(ctx, mt, cu, q, ref, res, seq)
    lib.install_boundary(cb)
    kind = job['kind']
    ctx.workload = kind + ('-cjk' if kind == 'wsperturb' and job.get('culture') in ('zh-cn', 'ja-jp') else '')
    if kind == 'corpus':
        cu = job['culture']
        models = [(mt, m) for rn, mt, c, m in lib.models_for(culture=cu) if pid != 'C11' or mt == 'DateTimeModel']
        if not models:
            return
        inputs = lib.corpus_inputs(cu, supported_only=True)
        r = ctx.rng('corpus:%s' % cu)
        if ctx.tier == 'quick':
            per = 500
            if len(inputs) > per * 1:
                inputs = sorted(r.sample(inputs, min(len(inputs), max(per, len(inputs) // 6))), key=lambda t: (t[0], t[1] or ''))
        for i, (q, ref) in enumerate(inputs):
            if i % job['shards'] != job['shard']:
                continue
            R = lib.parse_ref(ref) if ref else dt.datetime(2016, 11, 7)
            for mt, m in models:
                try:
                    lib.call(m, mt, q, R)
                except Exception:
                    pass
    elif kind == 'noise':
        cu = job['culture']
        models = [(mt, m) for rn, mt, c, m in lib.models_for(culture=cu) if pid != 'C11' or mt == 'DateTimeModel']
        if not models:
            return
        words = lib.corpus_words(cu) or ['a']
        r = ctx.rng('noise:%s:%d' % (cu, job['shard']))
        n = 150 if ctx.tier == 'quick' else 1500
        for _ in range(n):
            q = noise_query(r, words, cu)
            R = dtlib.rand_ref(r)
            for mt, m in models:
                try:
                    lib.call(m, mt, q, R)
                except Exception:
                    pass
    elif kind == 'multi':
        models = [(mt, m) for rn, mt, c, m in lib.models_for(culture='en-us') if pid != 'C11' or mt == 'DateTimeModel']
        r = ctx.rng('multi:%d' % job['shard'])
        n = 250 if ctx.tier == 'quick' else 2500
        for _ in range(n):
            pool = multi_pool(r)
            k = r.randrange(2, 5)
            parts = [r.choice(pool) for _ in range(k)]
            q = r.choice(['', 'note: ', 'I said ']) + ''.join(p + (r.choice(FILLERS) if i < k - 1 else '') for i, p in enumerate(parts)) + r.choice(['', ' .', ' ok'])
            R = dtlib.rand_ref(r)
            for mt, m in models:
                try:
                    lib.call(m, mt, q, R)
                except Exception:
                    pass
    elif kind == 'multicorpus':
        # several-per-sentence in every culture: 2-4 of the entity expressions the culture's Specs expect, joined by neutral
        # punctuation and filler words of the language
        cu = job['culture']
        models = [(mt, m) for rn, mt, c, m in lib.models_for(culture=cu) if pid != 'C11' or mt == 'DateTimeModel']
        texts = [t for rec, t in lib.corpus_entity_texts(cu)]
        if not models or len(texts) < 4:
            return
        r = ctx.rng('multicorpus:%s:%d' % (cu, job['shard']))
        fill = CULT_FILLERS.get(cu, CULT_FILLERS['*'])
        n = 160 if ctx.tier == 'quick' else 1600
        for _ in range(n):
            k = r.randrange(2, 5)
            parts = [r.choice(texts) for _ in range(k)]
            q = ''.join(p + (r.choice(fill) if i < k - 1 else '') for i, p in enumerate(parts))
            R = dtlib.rand_ref(r)
            for mt, m in models:
                try:
                    lib.call(m, mt, q, R)
                except Exception:
                    pass
    elif kind == 'wsperturb':
        # white-space perturbation of Specs inputs: a blank inserted between two characters (CJK: anywhere; other
        # cultures: an existing blank doubled / turned into a tab or NBSP), leading and trailing blanks
        cu = job['culture']
        models = [(mt, m) for rn, mt, c, m in lib.models_for(culture=cu)]
        if not models:
            return
        inputs = lib.corpus_inputs(cu, supported_only=True)
        r = ctx.rng('ws:%s:%d' % (cu, job['shard']))
        n = 120 if ctx.tier == 'quick' else 1500
        picks = r.sample(inputs, min(n, len(inputs)))
        cjk = cu in ('zh-cn', 'ja-jp')
        for k, (q, ref) in enumerate(picks):
            if k % job['shards'] != job['shard']:
                continue
            R = lib.parse_ref(ref) if ref else dt.datetime(2016, 11, 7)
            variants = set()
            if cjk:
                pos = list(range(1, len(q)))
                for i in (pos if len(pos) <= 12 else r.sample(pos, 12)):
                    variants.add(q[:i] + ' ' + q[i:])
            else:
                sp = [i for i, ch in enumerate(q) if ch == ' ']
                for i in (sp if len(sp) <= 5 else r.sample(sp, 5)):
                    variants.add(q[:i] + r.choice(['  ', '\t', '\u00a0', ' \n']) + q[i + 1:])
            variants.add('  ' + q)
            variants.add(q + '  ')
            for v in sorted(variants):
                for mt, m in models:
                    try:
                        lib.call(m, mt, v, R)
                    except Exception:
                        pass
    elif kind == 'wsentity':
        # the entity expressions the Specs expect (Results[].Text of supported model-level cases), each with a blank
        # inserted at every inner position (CJK) / every inner blank widened (other cultures), alone and in a carrier
        cu = job['culture']
        models = [(mt, m) for rn, mt, c, m in lib.models_for(culture=cu)]
        if not models:
            return
        texts = lib.corpus_entity_texts(cu)
        r = ctx.rng('wsent:%s' % cu)
        cjk = cu in ('zh-cn', 'ja-jp')
        unit_texts = [t for rec, t in texts if rec == 'NumberWithUnit']
        other = [t for rec, t in texts if rec != 'NumberWithUnit']
        n_other = 150 if ctx.tier == 'quick' else 3000
        pool = sorted(set(unit_texts if (cjk or ctx.tier == 'thorough') else r.sample(unit_texts, min(150, len(unit_texts)))) |
                      set(r.sample(other, min(n_other, len(other)))))
        for k, t in enumerate(pool):
            if k % job['shards'] != job['shard']:
                continue
            variants = set()
            if cjk:
                for i in range(1, len(t)):
                    if not t[i].isspace() and not t[i - 1].isspace():
                        variants.add(t[:i] + ' ' + t[i:])
            else:
                for i, ch in enumerate(t):
                    if ch == ' ':
                        variants.add(t[:i] + '  ' + t[i + 1:])
                        variants.add(t[:i] + '\t' + t[i + 1:])
            R = dt.datetime(2016, 11, 7, 10, 30)
            for v in sorted(variants)[:14]:
                for q in ((v, '今天' + v + '了') if cjk else (v, 'x ' + v + ' y')):
                    for mt, m in models:
                        try:
                            lib.call(m, mt, q, R)
                        except Exception:
                            pass
    elif kind == 'edge':
        # every expression in every white-space / punctuation context: matches that begin or end with a blank,
        # expressions at the very start / end of the query, tabs, NBSP, newlines
        models = [(mt, m) for rn, mt, c, m in lib.models_for(culture='en-us')]
        r = ctx.rng('edge:%d' % job['shard'])
        n = 12 if ctx.tier == 'quick' else 60
        for _ in range(n):
            pool = multi_pool(r) + PHONES
            R = dtlib.rand_ref(r)
            for expr in pool:
                # thorough: every short context each time, the three ~1 700-character contexts in 4 of the 60 rounds (they cost 50x a short one)
                for c in ((EDGE_CONTEXTS if _ < 4 else EDGE_CONTEXTS[3:]) if ctx.tier == 'thorough' else r.sample(EDGE_CONTEXTS, 5)):
                    q = c.format(expr)
                    for mt, m in models:
                        try:
                            lib.call(m, mt, q, R)
                        except Exception:
                            pass
    elif kind == 'invalid':
        m = dtlib.dt_model('en-us')
        r = ctx.rng('invalid')
        # non-existent calendar dates (single dates only; these are also composed with times and ranges)
        bad = ['February 30, 2019', '2019-02-30', '31/04/2019', '4/31/2019', 'June 31', 'February 29, 2019', '2019-02-29', 'September 31st', '11/31', '2/30',
               'February 29', '2/29/1900', '1900-02-29', '2100-02-29', '29 February 2100', 'June 31, 2020', 'feb 30']
        for y in range(1901, 2100, 7):
            if not (y % 4 == 0 and (y % 100 != 0 or y % 400 == 0)):
                bad += ['February 29, %d' % y, '%d-02-29' % y, '2/29/%d' % y, 'April 31, %d' % y]
        # other invalid inputs, fed alone / in a neutral sentence only
        alone = ['24:30', '25:00', 'at 24:00', '2019-13-01', '12:60', '23:59:60', 'from 2019-02-30 to 2019-03-05', 'between 4/31/2019 and 5/2/2019', '0/0/2019',
                 '2019-00-10', 'april 31 2020 at 25:00', '2/29-3/1/2019', 'from feb 28 to feb 30']
        composed = ['{}', 'see you on {} ok', '{} at 5pm', '{} at 17:20', '{} from 3pm to 5pm', '{} 3pm-5pm', '{} in the morning', 'from 3pm to 5pm on {}',
                    'from {} to December 31, 2099', 'between {} and 2099-12-31', '{} at 8 in the evening', 'before {}', 'after {} 10am', 'since {}', '{} for 3 hours']
        for q in bad:
            for car in composed:
                m.parse(car.format(q), dtlib.rand_ref(r))
        for q in alone:
            for car in ('{}', 'see you on {} ok'):
                m.parse(car.format(q), dtlib.rand_ref(r))
        for cu, qs in (('zh-cn', ['2019年2月29日下午3点到5点', '2月30日晚上', '2019年2月30日', '2019年2月30日下午3点', '从2019年2月30日到3月5日']),
                       ('es-es', ['30 de febrero de 2019', '30 de febrero de 2019 a las 5pm', '31/04/2019 de 3pm a 5pm']),
                       ('fr-fr', ['30 février 2019', '30 février 2019 à 17h', '31/04/2019 de 15h à 17h']),
                       ('de-de', ['30. Februar 2019', '30. Februar 2019 um 17 Uhr', '31.04.2019 von 15 bis 17 Uhr'])):
            mm = dtlib.dt_model(cu)
            for q in qs:
                mm.parse(q, dtlib.rand_ref(r))
    elif kind == 'unitpairs':
        # two amounts side by side: main-currency amount + fraction-unit amount of the SAME and of OTHER currencies, two main currencies,
        # two dimensions; joined by a blank, the culture's connector, a comma - every model of the culture sees each sentence
        from rtmon.checkers import c05
        cu = job['culture']
        models = [(mt, m) for rn, mt, c, m in lib.models_for(culture=cu)]
        cur = lib.model('NumberWithUnitRecognizer', 'CurrencyModel', cu)
        cfg, pcfg = c05.tables(cur)
        r = ctx.rng('unitpairs:' + cu)
        iso_map = pcfg.currency_name_to_iso_code_map or {}
        frac_code = pcfg.currency_fraction_code_list or {}
        suffix = {}
        for unit, f in c05.forms_of(cfg.suffix_list):
            if f.replace(' ', '').isalpha():
                suffix.setdefault(unit, []).append(f)
        mains = sorted(u for u in iso_map if u in suffix and u not in frac_code)
        fracs = sorted(u for u in frac_code if u in suffix)
        n = 40 if ctx.tier == 'quick' else 400
        mains = r.sample(mains, min(n, len(mains)))
        joins = [' ', ' %s ' % c05.CONNECT[cu], ', ']
        dims = UNITPAIR_DIMS.get(cu, [])
        for mu in mains:
            mf = r.choice(suffix[mu])
            others = r.sample(fracs, min(6 if ctx.tier == 'quick' else 20, len(fracs)))
            m2 = r.choice(mains)
            for j in joins:
                qs = ['%d %s%s%d %s' % (r.randrange(1, 900), mf, j, r.randrange(1, 99), r.choice(suffix[fu])) for fu in others]
                qs.append('%d %s%s%d %s' % (r.randrange(1, 900), mf, j, r.randrange(1, 900), r.choice(suffix[m2])))
                if dims:
                    a, b = r.sample(dims, 2)
                    qs.append('%d %s%s%d %s' % (r.randrange(1, 900), a, j, r.randrange(1, 900), b))
                for q in qs:
                    for mt, m in models:
                        try:
                            lib.call(m, mt, q, dt.datetime(2016, 11, 7, 10, 30))
                        except Exception:
                            pass
    elif kind == 'unitorder':
        # every listed unit spelling with the number on the OTHER side as well ('british £ 5' for the suffix spelling 'british £', whose
        # last token is itself a prefix unit), and between two copies of the spelling ('km/min 5 km/min'): whatever is recognised, no overlap
        from rtmon.checkers import c05
        cu = job['culture']
        r = ctx.rng('unitorder:' + cu)
        for mt in ('CurrencyModel', 'DimensionModel', 'AgeModel', 'TemperatureModel'):
            try:
                m = lib.model('NumberWithUnitRecognizer', mt, cu)
            except Exception:
                continue
            cfg, pcfg = c05.tables(m)
            forms = sorted({f for table in (cfg.suffix_list, cfg.prefix_list) for u, f in c05.forms_of(table) if f.strip()})
            multi = [f for f in forms if ' ' in f or '/' in f or not f.isalnum()]
            pick = multi if ctx.tier == 'thorough' else r.sample(multi, min(260, len(multi)))
            for f in pick:
                n = r.choice(['5', '12', '20', '3'])
                for q in ('%s %s' % (f, n), '%s %s' % (n, f), '%s %s %s' % (f, n, f), '%s%s' % (f, n)):
                    try:
                        lib.call(m, mt, q, None)
                    except Exception:
                        pass
    elif kind == 'suffixpairs':
        # the SAME trailing (or leading) modifier phrase on two or three entities of one sentence: '<a> or later, and <b> or later'
        r = ctx.rng('suffixpairs')
        n = 25 if ctx.tier == 'quick' else 300
        for cu, (sufs, pres, bases, joins) in MOD_PAIRS.items():
            models = [(mt, m) for rn, mt, c, m in lib.models_for(culture=cu) if mt == 'DateTimeModel']
            for _ in range(n):
                k = r.choice([2, 2, 3])
                parts = r.sample(bases, k)
                if r.random() < 0.7:
                    suf = r.choice(sufs)
                    q = r.choice(joins).join('%s %s' % (p, suf) for p in parts)
                else:
                    pre = r.choice(pres)
                    q = r.choice(joins).join('%s %s' % (pre, p) for p in parts)
                for mt, m in models:
                    try:
                        lib.call(m, mt, q, dtlib.rand_ref(r))
                    except Exception:
                        pass
    elif kind == 'insiderange':
        # year-less ranges ('from 4 to 22 november', 'from october 30 to november 5', weekday and month ranges) asked with the reference
        # before, ON the first day, INSIDE, on the last day and after the range: start stays before end in both readings
        r = ctx.rng('insiderange')
        n = 30 if ctx.tier == 'quick' else 400
        for cu, (tpls, months) in INSIDE_RANGE.items():
            m = dtlib.dt_model(cu)
            for _ in range(n):
                mo = r.randrange(1, 13)
                a = r.randrange(1, 20)
                b = r.randrange(a + 1, 28)
                y = r.randrange(1951, 2090)
                t = r.choice(tpls)
                mo2 = mo % 12 + 1
                q = t.format(a=a, b=b, m=months[mo - 1], m2=months[mo2 - 1])
                two_months = '{m2}' in t
                for R in (dt.datetime(y, mo, a) - dt.timedelta(days=r.randrange(1, 40)), dt.datetime(y, mo, a), dt.datetime(y, mo, a, 13, 30), dt.datetime(y, mo, min(a + 1, b)),
                          dt.datetime(y, mo2 if two_months else mo, b, 23, 59, 59), dt.datetime(y, mo2 if two_months else mo, b) + dt.timedelta(days=r.randrange(1, 40))):
                    try:
                        m.parse(q, R)
                    except Exception:
                        pass
    elif kind == 'modifiers':
        # one or two modifiers (before / after / since / until class x around class) in front of a date, time, date-time or period:
        # the value shape follows the modifier (start / end / both), in English and in the cultures' own words
        r = ctx.rng('modifiers')
        m = dtlib.dt_model('en-us')
        n = 30 if ctx.tier == 'quick' else 400
        for _ in range(n):
            d = dtlib.rand_date(r)
            base = [dtlib.EN_LAYOUTS[r.choice(sorted(dtlib.EN_LAYOUTS))](d), '%s %d%s' % (r.choice(dtlib.MON_EN), r.randrange(1, 28), r.choice(['', 'th'])),
                    '%d%s' % (r.randrange(1, 13), r.choice(['am', 'pm'])), '%d%s tomorrow' % (r.randrange(1, 13), r.choice(['am', 'pm'])), 'tomorrow', 'next %s' % r.choice(dtlib.WD_EN),
                    '%02d:%02d' % (r.randrange(24), r.randrange(60)), '%d' % r.randrange(1990, 2030), 'next week', '%s %d' % (r.choice(dtlib.MON_EN), r.randrange(1990, 2030)),
                    '%s at %d%s' % (d.isoformat(), r.randrange(1, 13), r.choice(['am', 'pm']))]
            for mod in EN_MODS:
                for b in (base if ctx.tier == 'thorough' else r.sample(base, 4)):
                    for car in ('{}', 'I have been away {} .'):
                        try:
                            m.parse(car.format('%s %s' % (mod, b)), dtlib.rand_ref(r))
                        except Exception:
                            pass
        for cu, qs in CULT_MOD_EXPR.items():
            mm = dtlib.dt_model(cu)
            for q in qs:
                for car in ('{}', 'x {} .'):
                    try:
                        mm.parse(car.format(q), dtlib.rand_ref(r))
                    except Exception:
                        pass
    elif kind == 'hourgrid':
        # ranges of two clock hours, every (begin, end) pair 0..24 incl. end < begin, with and without am/pm markers and minutes,
        # alone and attached to a date expression: the hour arithmetic (am/pm reading, +12, wrap over midnight) runs on every pair
        cu = job['culture']
        m = dtlib.dt_model(cu)
        r = ctx.rng('hourgrid:' + cu)
        tpl, dates, marks = HOUR_TEMPLATES[cu]
        hours = list(range(0, 25))
        for a in hours:
            for b in hours:
                if ctx.tier == 'quick' and (a + 2 * b) % 3 and not (b < a <= 12):
                    continue
                for t in tpl:
                    variants = [(str(a), str(b))]
                    mk = r.choice(marks)
                    if mk:
                        variants.append((str(a), mk.format(b)))
                        if ctx.tier == 'thorough':
                            variants.append((mk.format(a), mk.format(b)))
                    if ctx.tier == 'thorough' or r.random() < 0.2:
                        variants.append(('%d:%02d' % (a, r.choice([0, 15, 30, 59])), str(b)))
                    for va, vb in variants:
                        d = r.choice(dates)
                        q = ' '.join(t.format(a=va, b=vb, d=d).split())
                        try:
                            m.parse(q, dtlib.rand_ref(r))
                        except Exception:
                            pass
    elif kind == 'gen':
        mod = importlib.import_module('rtmon.checkers.' + job['checker'])
        sub = lib.Ctx(pid, 'quick', ctx.seed, job['sub'])
        sub.pid = job['checker'].upper()          # the sub-generator draws from its own streams
        mod.run(job['sub'], sub)
        ctx.count('gen_workload_cases:' + job['checker'], sub.evals)


def replay(pid, fail, ctx):
    oracle = ORACLES[pid]
    hooks = getattr(importlib.import_module('rtmon.checkers.' + pid.lower()), 'install_hooks', None)
    if hooks:
        hooks(ctx)
    c = fail['case']
    w = fail.get('where', {})
    mt, cu = c.get('model', w.get('model', 'DateTimeModel')), c.get('culture', w.get('culture'))
    rn = [r for r, t, k in lib.registered() if t == mt and k == cu]
    m = lib.model(rn[0], mt, cu)
    ref = dt.datetime.fromisoformat(c['reference']) if c.get('reference') else None
    res = lib.call(m, mt, c['query'], ref)
    print('entities now:', [lib.ent(e) for e in res])
    oracle(ctx, mt, cu, c['query'], ref, res, 0)
