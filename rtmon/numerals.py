"""Independent numeral grammars: n -> list of (variant name, standard written-out form).

These are the oracle side of C04: each function spells the integer the way a dictionary/grammar of the language
does; nothing here is taken from the library's own tables.  Ranges: English up to 10^15; Spanish, French, Portuguese,
German, Italian, Dutch up to 999 999; Chinese and Japanese up to 10^12.
"""

# ------------------------------------------------------------------------------------------------ English
EN_ONES = 'zero one two three four five six seven eight nine ten eleven twelve thirteen fourteen fifteen sixteen seventeen eighteen nineteen'.split()
EN_TENS = 'x x twenty thirty forty fifty sixty seventy eighty ninety'.split()
EN_SC = ['', 'thousand', 'million', 'billion', 'trillion']
EN_ORD = {'one': 'first', 'two': 'second', 'three': 'third', 'five': 'fifth', 'eight': 'eighth', 'nine': 'ninth', 'twelve': 'twelfth'}


def _en_lt1000(n, use_and, hyphen):
    w = []
    if n >= 100:
        w += [EN_ONES[n // 100], 'hundred']
        n %= 100
        if n and use_and:
            w.append('and')
    if n >= 20:
        t = EN_TENS[n // 10]
        w.append(t + ('-' if hyphen else ' ') + EN_ONES[n % 10] if n % 10 else t)
    elif n or not w:
        w.append(EN_ONES[n])
    return w


def en_words(n, use_and=False, hyphen=True):
    if n == 0:
        return 'zero'
    groups, i = [], 0
    while n:
        groups.append((n % 1000, i))
        n //= 1000
        i += 1
    out = []
    for g, i in reversed(groups):
        if g == 0:
            continue
        ww = _en_lt1000(g, use_and, hyphen)
        if use_and and i == 0 and g < 100 and out:
            out.append('and')
        out += ww
        if EN_SC[i]:
            out.append(EN_SC[i])
    return ' '.join(out)


def en_ordinal(n, use_and=False, hyphen=True):
    w = en_words(n, use_and, hyphen)
    parts = w.rsplit(' ', 1)
    last = parts[-1]
    pre = ''
    if '-' in last:
        pre, last = last.rsplit('-', 1)
        pre += '-'
    if last in EN_ORD:
        last = EN_ORD[last]
    elif last.endswith('y'):
        last = last[:-1] + 'ieth'
    else:
        last = last + 'th'
    return (parts[0] + ' ' if len(parts) > 1 else '') + pre + last


def english(n):
    out = []
    for ua in (False, True):
        for hy in (True, False):
            out.append(('and=%d,hyphen=%d' % (ua, hy), en_words(n, ua, hy)))
    seen, res = set(), []
    for k, v in out:
        if v not in seen:
            seen.add(v)
            res.append((k, v))
    return res


def english_ordinal(n):
    seen, res = set(), []
    for ua in (False, True):
        for hy in (True, False):
            v = en_ordinal(n, ua, hy)
            if v not in seen:
                seen.add(v)
                res.append(('and=%d,hyphen=%d' % (ua, hy), v))
    return res


# ------------------------------------------------------------------------------------------------ Spanish
ES_U = 'cero uno dos tres cuatro cinco seis siete ocho nueve diez once doce trece catorce quince dieciséis diecisiete dieciocho diecinueve veinte veintiuno veintidós veintitrés veinticuatro veinticinco veintiséis veintisiete veintiocho veintinueve'.split()
ES_T = {30: 'treinta', 40: 'cuarenta', 50: 'cincuenta', 60: 'sesenta', 70: 'setenta', 80: 'ochenta', 90: 'noventa'}
ES_H = {100: 'ciento', 200: 'doscientos', 300: 'trescientos', 400: 'cuatrocientos', 500: 'quinientos', 600: 'seiscientos', 700: 'setecientos', 800: 'ochocientos', 900: 'novecientos'}


def _es_lt100(n, apocope=False):
    if n < 30:
        w = ES_U[n]
        if apocope and n == 1:
            return 'un'
        if apocope and n == 21:
            return 'veintiún'
        return w
    t, u = n // 10 * 10, n % 10
    if not u:
        return ES_T[t]
    return ES_T[t] + ' y ' + ('un' if apocope and u == 1 else ES_U[u])


def _es_lt1000(n, apocope=False):
    if n == 100:
        return 'cien'
    if n < 100:
        return _es_lt100(n, apocope)
    h, r = n // 100 * 100, n % 100
    return ES_H[h] + (' ' + _es_lt100(r, apocope) if r else '')


def spanish(n):
    if n < 1000:
        return [('std', _es_lt1000(n))]
    th, r = divmod(n, 1000)
    head = 'mil' if th == 1 else _es_lt1000(th, apocope=True) + ' mil'
    return [('std', head + (' ' + _es_lt1000(r) if r else ''))]


# ------------------------------------------------------------------------------------------------ French
FR_U = 'zéro un deux trois quatre cinq six sept huit neuf dix onze douze treize quatorze quinze seize dix-sept dix-huit dix-neuf'.split()
FR_T = {20: 'vingt', 30: 'trente', 40: 'quarante', 50: 'cinquante', 60: 'soixante'}


def _fr_lt100(n):
    if n < 20:
        return FR_U[n]
    if n < 70:
        t, u = n // 10 * 10, n % 10
        if u == 0:
            return FR_T[t]
        if u == 1:
            return FR_T[t] + ' et un'
        return FR_T[t] + '-' + FR_U[u]
    if n < 80:
        return 'soixante et onze' if n == 71 else 'soixante-' + FR_U[n - 60]
    if n == 80:
        return 'quatre-vingts'
    return 'quatre-vingt-' + FR_U[n - 80]


def _fr_lt1000(n, final=True):
    if n < 100:
        w = _fr_lt100(n)
        if not final and n == 80:
            w = 'quatre-vingt'
        return w
    h, r = divmod(n, 100)
    head = 'cent' if h == 1 else FR_U[h] + ' cent' + ('s' if r == 0 and final else '')
    return head + (' ' + _fr_lt100(r) if r else '')


def french(n):
    if n < 1000:
        return [('std', _fr_lt1000(n))]
    th, r = divmod(n, 1000)
    head = 'mille' if th == 1 else _fr_lt1000(th, final=False) + ' mille'
    return [('std', head + (' ' + _fr_lt1000(r) if r else ''))]


# ------------------------------------------------------------------------------------------------ Portuguese
PT_U = 'zero um dois três quatro cinco seis sete oito nove dez onze doze treze quatorze quinze dezesseis dezessete dezoito dezenove'.split()
PT_T = {20: 'vinte', 30: 'trinta', 40: 'quarenta', 50: 'cinquenta', 60: 'sessenta', 70: 'setenta', 80: 'oitenta', 90: 'noventa'}
PT_H = {100: 'cento', 200: 'duzentos', 300: 'trezentos', 400: 'quatrocentos', 500: 'quinhentos', 600: 'seiscentos', 700: 'setecentos', 800: 'oitocentos', 900: 'novecentos'}


def _pt_lt100(n):
    if n < 20:
        return PT_U[n]
    t, u = n // 10 * 10, n % 10
    return PT_T[t] + (' e ' + PT_U[u] if u else '')


def _pt_lt1000(n):
    if n == 100:
        return 'cem'
    if n < 100:
        return _pt_lt100(n)
    h, r = n // 100 * 100, n % 100
    return PT_H[h] + (' e ' + _pt_lt100(r) if r else '')


def portuguese(n):
    if n < 1000:
        return [('std', _pt_lt1000(n))]
    th, r = divmod(n, 1000)
    head = 'mil' if th == 1 else _pt_lt1000(th) + ' mil'
    if not r:
        return [('std', head)]
    # "e" joins the thousands to a remainder below 100 or a round hundred
    join = ' e ' if (r < 100 or r % 100 == 0) else ' '
    return [('std', head + join + _pt_lt1000(r))]


# ------------------------------------------------------------------------------------------------ German
DE_U = 'null ein zwei drei vier fünf sechs sieben acht neun zehn elf zwölf dreizehn vierzehn fünfzehn sechzehn siebzehn achtzehn neunzehn'.split()
DE_T = {20: 'zwanzig', 30: 'dreißig', 40: 'vierzig', 50: 'fünfzig', 60: 'sechzig', 70: 'siebzig', 80: 'achtzig', 90: 'neunzig'}


def _de_lt100(n, final=True):
    if n == 1:
        return 'eins' if final else 'ein'
    if n < 20:
        return DE_U[n]
    t, u = n // 10 * 10, n % 10
    return (DE_U[u] + 'und' if u else '') + DE_T[t]


def _de_lt1000(n, final=True):
    if n < 100:
        return _de_lt100(n, final)
    h, r = divmod(n, 100)
    return DE_U[h] + 'hundert' + (_de_lt100(r, final) if r else '')


def german(n):
    if n == 0:
        return [('std', 'null')]
    if n < 1000:
        return [('std', _de_lt1000(n))]
    th, r = divmod(n, 1000)
    return [('std', _de_lt1000(th, final=False) + 'tausend' + (_de_lt1000(r) if r else ''))]


# ------------------------------------------------------------------------------------------------ Italian
IT_U = 'zero uno due tre quattro cinque sei sette otto nove dieci undici dodici tredici quattordici quindici sedici diciassette diciotto diciannove'.split()
IT_T = {20: 'venti', 30: 'trenta', 40: 'quaranta', 50: 'cinquanta', 60: 'sessanta', 70: 'settanta', 80: 'ottanta', 90: 'novanta'}


def _it_lt100(n, final=True):
    if n < 20:
        return IT_U[n]
    t, u = n // 10 * 10, n % 10
    w = IT_T[t]
    if u in (1, 8):
        w = w[:-1]
    if u == 3 and final:
        return w + 'tré'
    return w + (IT_U[u] if u else '')


def _it_lt1000(n, final=True):
    if n < 100:
        return _it_lt100(n, final)
    h, r = divmod(n, 100)
    head = 'cento' if h == 1 else IT_U[h] + 'cento'
    return head + (_it_lt100(r, final) if r else '')


def italian(n):
    if n < 1000:
        return [('std', _it_lt1000(n))]
    th, r = divmod(n, 1000)
    head = 'mille' if th == 1 else _it_lt1000(th, final=False) + 'mila'
    return [('std', head + (_it_lt1000(r) if r else ''))]


# ------------------------------------------------------------------------------------------------ Dutch
NL_U = 'nul een twee drie vier vijf zes zeven acht negen tien elf twaalf dertien veertien vijftien zestien zeventien achttien negentien'.split()
NL_T = {20: 'twintig', 30: 'dertig', 40: 'veertig', 50: 'vijftig', 60: 'zestig', 70: 'zeventig', 80: 'tachtig', 90: 'negentig'}


def _nl_lt100(n):
    if n < 20:
        return NL_U[n]
    t, u = n // 10 * 10, n % 10
    if not u:
        return NL_T[t]
    link = 'ën' if NL_U[u].endswith('e') else 'en'
    return NL_U[u] + link + NL_T[t]


def _nl_lt1000(n):
    if n < 100:
        return _nl_lt100(n)
    h, r = divmod(n, 100)
    head = 'honderd' if h == 1 else NL_U[h] + 'honderd'
    return head + (_nl_lt100(r) if r else '')


def dutch(n):
    if n < 1000:
        return [('std', _nl_lt1000(n))]
    th, r = divmod(n, 1000)
    head = 'duizend' if th == 1 else _nl_lt1000(th) + 'duizend'
    return [('std', head + (' ' + _nl_lt1000(r) if r else ''))]


# ------------------------------------------------------------------------------------------------ Chinese / Japanese
ZH_D = '零一二三四五六七八九'


def _zh_lt10000(n, leading=True):
    """spelling of 0 < n < 10000; leading: at the very start 10..19 are written 十, 十一 ..."""
    out = ''
    units = [(1000, '千'), (100, '百'), (10, '十')]
    pending_zero = False
    started = False
    for v, ch in units:
        d, n = divmod(n, v)
        if d:
            if pending_zero and started:
                out += '零'
            if v == 10 and d == 1 and not started and leading:
                out += '十'
            else:
                out += ZH_D[d] + ch
            started = True
            pending_zero = False
        elif started:
            pending_zero = True
    if n:
        if pending_zero and started:
            out += '零'
        out += ZH_D[n]
    return out


def chinese(n):
    if n == 0:
        return [('std', '零')]
    parts = []
    for v, ch in ((10 ** 8, '亿'), (10 ** 4, '万'), (1, '')):
        d, n = divmod(n, v)
        parts.append((d, ch))
    out = ''
    started = False
    for i, (d, ch) in enumerate(parts):
        if d:
            if started and d < 1000:
                out += '零'
            out += _zh_lt10000(d, leading=not started) + ch
            started = True
        elif started and any(x for x, _ in parts[i + 1:]):
            # a whole empty group is read as one 零 (emitted with the next non-empty group)
            pass
    return [('std', out)]


JA_D = '〇一二三四五六七八九'


def _ja_lt10000(n):
    out = ''
    for v, ch in ((1000, '千'), (100, '百'), (10, '十')):
        d, n = divmod(n, v)
        if d:
            out += (JA_D[d] if d > 1 else '') + ch
    if n:
        out += JA_D[n]
    return out


def japanese(n):
    if n == 0:
        return [('std', '零')]
    out = ''
    for v, ch in ((10 ** 8, '億'), (10 ** 4, '万'), (1, '')):
        d, n = divmod(n, v)
        if d:
            s = _ja_lt10000(d)
            if ch and d == 1000:
                s = '一千'          # 一千万 / 一千億 keep the 一
            out += s + ch
    return [('std', out)]


LANGS = {
    'en-us': (english, 10 ** 15), 'es-es': (spanish, 10 ** 6), 'fr-fr': (french, 10 ** 6), 'pt-br': (portuguese, 10 ** 6), 'de-de': (german, 10 ** 6),
    'it-it': (italian, 10 ** 6), 'nl-nl': (dutch, 10 ** 6), 'zh-cn': (chinese, 10 ** 12), 'ja-jp': (japanese, 10 ** 12),
}


# ------------------------------------------------------------------------------------------------ ordinals (German, Dutch)
DE_ORD_SMALL = {1: 'erste', 2: 'zweite', 3: 'dritte', 4: 'vierte', 5: 'fünfte', 6: 'sechste', 7: 'siebte', 8: 'achte', 9: 'neunte', 10: 'zehnte', 11: 'elfte',
                12: 'zwölfte', 13: 'dreizehnte', 14: 'vierzehnte', 15: 'fünfzehnte', 16: 'sechzehnte', 17: 'siebzehnte', 18: 'achtzehnte', 19: 'neunzehnte'}


def german_ordinal(n):
    """einundzwanzigste, einhunderterste, zweitausenddritte, tausendste ... (0 < n < 10^6)"""
    th, r = divmod(n, 1000)
    head = (_de_lt1000(th, final=False) + 'tausend') if th else ''
    if r == 0:
        return [('std', head + 'ste')]
    h, rr = divmod(r, 100)
    mid = (DE_U[h] + 'hundert') if h else ''
    if rr == 0:
        return [('std', head + mid + 'ste')]
    if rr < 20:
        return [('std', head + mid + DE_ORD_SMALL[rr])]
    return [('std', head + mid + _de_lt100(rr) + 'ste')]


NL_ORD_SMALL = {1: 'eerste', 2: 'tweede', 3: 'derde', 4: 'vierde', 5: 'vijfde', 6: 'zesde', 7: 'zevende', 8: 'achtste', 9: 'negende', 10: 'tiende', 11: 'elfde',
                12: 'twaalfde', 13: 'dertiende', 14: 'veertiende', 15: 'vijftiende', 16: 'zestiende', 17: 'zeventiende', 18: 'achttiende', 19: 'negentiende'}


def dutch_ordinal(n):
    th, r = divmod(n, 1000)
    head = ('duizend' if th == 1 else _nl_lt1000(th) + 'duizend') if th else ''
    if r == 0:
        return [('std', head + 'ste')]
    h, rr = divmod(r, 100)
    mid = ('honderd' if h == 1 else NL_U[h] + 'honderd') if h else ''
    sep = ' ' if head else ''
    if rr == 0:
        return [('std', head + sep + mid + 'ste')]
    if rr < 20:
        return [('std', head + sep + mid + NL_ORD_SMALL[rr])]
    return [('std', head + sep + mid + _nl_lt100(rr) + 'ste')]


ORDINALS = {'de-de': german_ordinal, 'nl-nl': dutch_ordinal}
