# stand-in for PyPI datedelta (not installable offline): calendar-aware years/months/days delta
from datetime import date, timedelta
from calendar import monthrange

class datedelta(object):
    __slots__ = ('_years', '_months', '_days')
    def __init__(self, years=0, months=0, days=0):
        for n, v in (('years', years), ('months', months), ('days', days)):
            if int(v) != v:
                raise ValueError('%s must be an integer value' % n)
        self._years, self._months, self._days = int(years), int(months), int(days)
    years = property(lambda s: s._years)
    months = property(lambda s: s._months)
    days = property(lambda s: s._days)
    def __repr__(self):
        return 'datedelta(years=%d, months=%d, days=%d)' % (self._years, self._months, self._days)
    def __eq__(self, o):
        return isinstance(o, datedelta) and (self._years, self._months, self._days) == (o._years, o._months, o._days)
    def __hash__(self):
        return hash((self._years, self._months, self._days))
    def __neg__(self):
        return datedelta(-self._years, -self._months, -self._days)
    def __pos__(self):
        return self
    def __add__(self, o):
        if isinstance(o, datedelta):
            return datedelta(self._years + o._years, self._months + o._months, self._days + o._days)
        return NotImplemented
    def __sub__(self, o):
        if isinstance(o, datedelta):
            return datedelta(self._years - o._years, self._months - o._months, self._days - o._days)
        return NotImplemented
    def __mul__(self, n):
        if isinstance(n, int):
            return datedelta(self._years * n, self._months * n, self._days * n)
        return NotImplemented
    __rmul__ = __mul__
    def __radd__(self, other):
        if isinstance(other, date):
            day = other.day
            year = other.year + self._years
            month = other.month
            if self._months:
                dy, m0 = divmod(month - 1 + self._months, 12)
                year += dy
                month = m0 + 1
            if day > 28:
                day = min(day, monthrange(year, month)[1])
            result = other.replace(year=year, month=month, day=day)
            if self._days:
                result += timedelta(days=self._days)
            return result
        return NotImplemented
    def __rsub__(self, other):
        if isinstance(other, date):
            return other + (-self)
        return NotImplemented
