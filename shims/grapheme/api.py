# stand-in for PyPI grapheme (not installable offline), built on regex's \X
import regex as _re
def graphemes(string):
    return iter(_re.findall(r'\X', string))
def length(string, until=None):
    n = len(_re.findall(r'\X', string)); return n if until is None else min(n, until)
def slice(string, start=None, end=None):
    if start is None and end is None:
        return string
    return ''.join(_re.findall(r'\X', string)[start:end])
