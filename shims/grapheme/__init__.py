from .api import *
