#!/bin/sh
# Offline setup: nothing is compiled or installed; verify the interpreter, the shims and the tree import.
here="$(cd "$(dirname "$0")" && pwd)"
cd "$here" || exit 1
mkdir -p evidence .work
export PYTHONDONTWRITEBYTECODE=1 PYTHONPATH="$here"
exec /venv/bin/python - <<'PY'
import sys
from rtmon import bootstrap
bootstrap.install()
import regex, emoji, datedelta, grapheme.api
import recognizers_text, recognizers_number, recognizers_number_with_unit, recognizers_date_time
import recognizers_sequence, recognizers_choice, datatypes_timex_expression
print('setup ok:', sorted(bootstrap.assert_origins().items())[0])
PY
