# stand-in for ruamel.yaml's YAML(typ='safe') built on PyYAML, YAML 1.2 core-schema scalar resolution
import re, yaml as _y
class _Loader(_y.SafeLoader):
    pass
# drop YAML 1.1 implicit resolvers, install YAML 1.2 core ones
_Loader.yaml_implicit_resolvers = {}
def _add(tag, rx, first):
    _Loader.add_implicit_resolver(tag, re.compile(rx), first)
_add('tag:yaml.org,2002:bool', r'^(?:true|True|TRUE|false|False|FALSE)$', list('tTfF'))
_add('tag:yaml.org,2002:null', r'^(?:~|null|Null|NULL|)$', ['~','n','N',''])
_add('tag:yaml.org,2002:int', r'^(?:[-+]?[0-9]+|0o[0-7]+|0x[0-9a-fA-F]+)$', list('-+0123456789'))
_add('tag:yaml.org,2002:float', r'^(?:[-+]?(?:\.[0-9]+|[0-9]+(?:\.[0-9]*)?)(?:[eE][-+]?[0-9]+)?|[-+]?\.(?:inf|Inf|INF)|\.(?:nan|NaN|NAN))$', list('-+0123456789.'))
class YAML:
    def __init__(self, typ=None):
        class L(_Loader): pass
        self._L = L
    def register_class(self, cls):
        self._L.add_constructor(cls.yaml_tag, lambda loader, node, c=cls: c.from_yaml(loader, node))
    def load(self, stream):
        return _y.load(stream, Loader=self._L)
