import warnings, random, collections
warnings.simplefilter('ignore')
from recognizers_number import NumberRecognizer
rec = NumberRecognizer()
m = rec.get_number_model('en-us', False); om = rec.get_ordinal_model('en-us', False)
ONES='zero one two three four five six seven eight nine ten eleven twelve thirteen fourteen fifteen sixteen seventeen eighteen nineteen'.split()
TENS='x x twenty thirty forty fifty sixty seventy eighty ninety'.split()
ORD1={'one':'first','two':'second','three':'third','five':'fifth','eight':'eighth','nine':'ninth','twelve':'twelfth'}
SC=['','thousand','million','billion','trillion']
def lt1000(n, use_and, hyphen):
    w=[]
    if n>=100:
        w += [ONES[n//100],'hundred']; n%=100
        if n and use_and: w.append('and')
    if n>=20:
        t=TENS[n//10]
        if n%10: w.append(t+('-' if hyphen else ' ')+ONES[n%10])
        else: w.append(t)
    elif n or not w: 
        if n or not w: w.append(ONES[n])
    return w
def words(n, use_and=False, hyphen=True):
    if n==0: return 'zero'
    groups=[]; i=0
    while n: groups.append((n%1000,i)); n//=1000; i+=1
    out=[]
    for g,i in reversed(groups):
        if g==0: continue
        ww = lt1000(g, use_and, hyphen)
        # 'and' before final group < 100 (british)
        if use_and and i==0 and g<100 and out: out.append('and')
        out += ww
        if SC[i]: out.append(SC[i])
    return ' '.join(out)
def ordinal(n, **kw):
    w = words(n, **kw)
    parts = w.rsplit(' ',1)
    last = parts[-1]
    pre=''
    if '-' in last: pre,last = last.rsplit('-',1); pre+='-'
    if last in ORD1: last=ORD1[last]
    elif last.endswith('y'): last=last[:-1]+'ieth'
    else: last=last+'th'
    return (parts[0]+' ' if len(parts)>1 else '')+pre+last
rnd=random.Random(3)
ns=list(range(0,3000))+[10**k+d for k in range(3,15) for d in (-1,0,1)]+[rnd.randrange(10**15) for _ in range(1500)]+[rnd.randrange(10**6) for _ in range(1500)]
bad=collections.Counter(); tot=collections.Counter(); ex=collections.defaultdict(list)
for n in ns:
    for ua in (False,True):
        for hy in (True,False):
            s=words(n,ua,hy)
            for q in (s, 'I have '+s+' apples'):
                r=m.parse(q); st=q.index(s); k=('card',ua,hy,q==s); tot[k]+=1
                ok=len(r)==1 and r[0] is not None and r[0].start==st and r[0].end==st+len(s)-1 and r[0].resolution['value']==str(n)
                if not ok:
                    bad[k]+=1
                    if len(ex[k])<5: ex[k].append((n,q,[(x.text,x.resolution['value']) if x else None for x in r]))
            if n>0:
                s=ordinal(n,use_and=ua,hyphen=hy)
                r=om.parse(s); k=('ord',ua,hy); tot[k]+=1
                ok=len(r)==1 and r[0] is not None and r[0].start==0 and r[0].end==len(s)-1 and r[0].resolution['value']==str(n)
                if not ok:
                    bad[k]+=1
                    if len(ex[k])<5: ex[k].append((n,s,[(x.text,x.resolution['value']) if x else None for x in r]))
for k in sorted(tot, key=str):
    print(k, tot[k], bad[k])
    for e in ex[k]: print('    ',e)
