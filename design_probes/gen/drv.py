import sys, os, json
sys.path.insert(0, '/repo/Python/libraries/resource-generator')
if len(sys.argv)>2: sys.path.insert(0, sys.argv[2])
from lib.base_code_generator import generate
out = sys.argv[1]
n=0
for pkg in ['recognizers-number','recognizers-number-with-unit','recognizers-date-time','recognizers-sequence','recognizers-choice']:
    d = json.load(open(f'/repo/Python/libraries/{pkg}/resource-definitions.json'))
    for c in d['configFiles']:
        inp = os.path.join('/repo/Patterns', *c['input']) + '.yaml'
        if not os.path.exists(inp):
            import glob; inp=[p for p in glob.glob(os.path.dirname(inp)+'/*.yaml') if p.lower()==inp.lower()][0]
        o = os.path.join(out, pkg, c['output'] + '.py')
        generate(inp, o, '\n'.join(c['header']), '\n'.join(c['footer']))
        n+=1
print(n)
