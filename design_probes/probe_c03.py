import warnings, random, collections
from decimal import Decimal
warnings.simplefilter('ignore')
from recognizers_number import NumberRecognizer
from recognizers_number.culture import SUPPORTED_CULTURES
rec = NumberRecognizer()
rnd = random.Random(2)
def group(s, sep):
    out=''
    while len(s)>3: out = sep + s[-3:] + out; s=s[:-3]
    return s+out
bad=collections.Counter(); tot=collections.Counter(); ex=collections.defaultdict(list)
for c, lf in SUPPORTED_CULTURES.items():
    m = rec.get_number_model(c, False); pm = rec.get_percentage_model(c, False)
    th, dec = (',','.') if lf is None else (lf.thousands_mark, lf.decimals_mark)
    for i in range(400):
        nd = rnd.randrange(1,16); ip = rnd.randrange(10**(nd-1) if nd>1 else 0, 10**nd)
        fd = rnd.randrange(0,4); fp = ''.join(rnd.choice('0123456789') for _ in range(fd))
        if len(str(ip))+len(fp) > 15: fp = fp[:max(0,15-len(str(ip)))]
        if fp.endswith('0'): fp = fp.rstrip('0')
        for form in ['plain','grouped','decimal','grouped+decimal','negative']:
            si = group(str(ip), th) if 'grouped' in form else str(ip)
            if form in ('decimal','grouped+decimal') and fp: s = si+dec+fp; val = Decimal(f'{ip}.{fp}')
            elif form=='negative': s='-'+str(ip); val=Decimal(-ip)
            else: s = si; val = Decimal(ip)
            if form=='decimal' and not fp: continue
            exp = str(val).replace('.', dec)
            for carrier in ['{}', 'abc {} xyz'] if c not in ('zh-cn','ja-jp') else ['{}']:
                q = carrier.format(s); st=q.index(s)
                r = m.parse(q)
                k=(c,form)
                tot[k]+=1
                ok = len(r)==1 and r[0] is not None and r[0].start==st and r[0].end==st+len(s)-1 and r[0].resolution['value']==exp
                if not ok:
                    bad[k]+=1
                    if len(ex[k])<3: ex[k].append((q, exp, [(x.text,x.start,x.end,x.resolution) if x else None for x in r]))
                if carrier=='{}' and form!='negative':
                    r = pm.parse(s+'%')
                    k=(c,form+'%'); tot[k]+=1
                    ok = len(r)==1 and r[0] is not None and r[0].start==0 and r[0].end==len(s) and r[0].resolution['value']==exp+'%'
                    if not ok:
                        bad[k]+=1
                        if len(ex[k])<3: ex[k].append((s+'%', exp, [(x.text,x.start,x.end,x.resolution) if x else None for x in r]))
for k in sorted(tot):
    print(k, tot[k], bad[k])
    for e in ex[k]: print('    ',e)
