import warnings, random, collections, datetime as dt
warnings.simplefilter('ignore')
from recognizers_date_time import DateTimeRecognizer
m = DateTimeRecognizer('en-us').get_datetime_model('en-us')
bad=collections.Counter(); tot=collections.Counter(); ex=collections.defaultdict(list)
R=dt.datetime(2016,11,7,10,30)
def run(k,q,pred):
    r=m.parse(q,R); tot[k]+=1
    ok=False
    try: ok = len(r)==1 and r[0].start==0 and r[0].end==len(q)-1 and r[0].resolution is not None and pred(r[0])
    except Exception as e: ok=False
    if not ok:
        bad[k]+=1
        if len(ex[k])<5: ex[k].append((q,[(x.text,x.type_name,x.resolution) for x in r]))
def vals(e): return e.resolution['values']
U={'second':('TS',1),'minute':('TM',60),'hour':('TH',3600),'day':('D',86400),'week':('W',604800),'month':('M',2592000),'year':('Y',31536000)}
rnd=random.Random(7)
for N in list(range(1,60))+[rnd.randrange(60,5001) for _ in range(60)]+[100,1000,5000]:
    for u,(code,sec) in U.items():
        q=f'{N} {u}'+('s' if N!=1 else '')
        tx='P'+('T' if code[0]=='T' else '')+str(N)+code[-1]
        run('dur '+u,q,lambda e: e.type_name=='datetimeV2.duration' and len(vals(e))==1 and vals(e)[0]['timex']==tx and vals(e)[0]['value']==str(N*sec))
MON=['January','February','March','April','May','June','July','August','September','October','November','December']
for _ in range(300):
    a=dt.date(1900,1,1)+dt.timedelta(days=rnd.randrange(73000)); b=a+dt.timedelta(days=rnd.randrange(1,4000))
    if b.year>2099: continue
    for name,f in (('iso',lambda d:d.isoformat()),('mdy',lambda d:f'{d.month}/{d.day}/{d.year}'),('Month d, yyyy',lambda d:f'{MON[d.month-1]} {d.day}, {d.year}')):
        for tmpl in ('from {} to {}','between {} and {}'):
            q=tmpl.format(f(a),f(b))
            run('range '+name+' '+tmpl.split()[0],q,lambda e: e.type_name=='datetimeV2.daterange' and len(vals(e))==1 and vals(e)[0]['start']==a.isoformat() and vals(e)[0]['end']==b.isoformat() and vals(e)[0]['timex']==f'({a.isoformat()},{b.isoformat()},P{(b-a).days}D)')
for _ in range(200):
    h1=rnd.randrange(0,23); h2=rnd.randrange(h1+1,24); m1=rnd.randrange(60); m2=rnd.randrange(60)
    for tmpl in ('from {} to {}','between {} and {}'):
        q=tmpl.format(f'{h1:02d}:{m1:02d}',f'{h2:02d}:{m2:02d}')
        run('timerange '+tmpl.split()[0],q,lambda e: e.type_name=='datetimeV2.timerange' and any(v['start']==f'{h1:02d}:{m1:02d}:00' and v['end']==f'{h2:02d}:{m2:02d}:00' for v in vals(e)))
    ap1='am' ; 
    q=f'from {h1%12 or 12}{"am" if h1<12 else "pm"} to {h2%12 or 12}{"am" if h2<12 else "pm"}'
    run('timerange ampm',q,lambda e: e.type_name=='datetimeV2.timerange' and len(vals(e))==1 and vals(e)[0]['start']==f'{h1:02d}:00:00' and vals(e)[0]['end']==f'{h2:02d}:00:00')
for k in sorted(tot):
    print(k, tot[k], bad[k])
    for e in ex[k]: print('    ',e)
