import sys, collections, warnings
warnings.simplefilter('ignore')
from recognizers_text import Culture
from recognizers_number_with_unit import NumberWithUnitRecognizer
from recognizers_number import NumberRecognizer
cultures = ['en-us','es-es','es-mx','fr-fr','pt-br','nl-nl','zh-cn','de-de','it-it','ja-jp']
rec = NumberWithUnitRecognizer()
models = {'currency':'CurrencyModel','dimension':'DimensionModel','temperature':'TemperatureModel','age':'AgeModel'}
tot=collections.Counter(); bad=collections.Counter(); ex=collections.defaultdict(list)
for c in cultures:
    for typ, mname in models.items():
        try:
            m = rec.get_model(mname, c, False)
        except ValueError:
            continue
        # first extractor/parser pair only = the culture's own tables
        ep = m.extractor_parser[0]
        cfg = ep.extractor.config
        unit_map = ep.parser.config.unit_map
        for kind, table in (('suffix', cfg.suffix_list), ('prefix', cfg.prefix_list)):
            for unit, forms in (table or {}).items():
                for form in str(forms).split('|'):
                    if not form or form.isspace(): continue
                    q = f'12 {form}' if kind=='suffix' else f'{form} 12'
                    if c in('zh-cn','ja-jp'):
                        q2 = f'12{form}' if kind=='suffix' else f'{form}12'
                    res = m.parse(q)
                    tot[(c,typ,kind)]+=1
                    ok = len(res)==1 and res[0].start==0 and res[0].end==len(q)-1 and res[0].resolution and res[0].resolution.get('value')=='12' and res[0].resolution.get('unit')==unit
                    if not ok:
                        bad[(c,typ,kind)]+=1
                        if len(ex[(c,typ,kind)])<6: ex[(c,typ,kind)].append((q, unit, [(r.text,r.start,r.end,r.resolution) for r in res]))
for k in sorted(tot):
    print(k, tot[k], 'bad', bad[k])
    for e in ex[k][:4]: print('     ', e)
print(sum(tot.values()), sum(bad.values()))
