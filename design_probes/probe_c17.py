import warnings, collections
warnings.simplefilter('ignore')
from recognizers_text import Culture, ModelFactory
from recognizers_number import NumberRecognizer
from recognizers_number_with_unit import NumberWithUnitRecognizer
from recognizers_sequence import SequenceRecognizer
from recognizers_choice.choice.recognizers_choice import ChoiceRecognizer
from recognizers_date_time import DateTimeRecognizer
SUP=Culture._get_supported_culture_codes()
def expected_culture(code, registered):
    """spec from the property statement"""
    if not code: return None
    c=code.lower()
    if c in SUP: res=c
    else:
        lang=c.split('-')[0].strip()
        same=[s for s in SUP if s.split('-')[0]==lang]
        res = same[0] if len(same)==1 else c
    return res
cases=['en-us','EN-US','En-Us','en-gb','en-au','en-*','es-es','es-mx','ES-MX','es-ar','fr-fr','fr-ca','FR-CA','pt-br','pt-pt','de-de','de-at','it-it','it-ch','nl-nl','nl-be','zh-cn','zh-tw','zh-HK','ja-jp','ja-xx','ko-kr','ko-kp','tr-tr','tr-cy','xx-yy','ru-ru','sv-se','','e','f','n','z','i-klingon','x-private','zhx-cn','english','fra','deu',' en-us','en-us ','en_us','en']
for Rcls, getters in ((NumberRecognizer,['get_number_model','get_ordinal_model','get_percentage_model']),(NumberWithUnitRecognizer,['get_currency_model','get_age_model']),(DateTimeRecognizer,['get_datetime_model']),(SequenceRecognizer,['get_phone_number_model','get_ip_address_model','get_email_model','get_url_model']),(ChoiceRecognizer,['get_boolean_model'])):
    rec=Rcls()
    mf=rec.model_factory
    reg=collections.defaultdict(dict)
    for key in mf.model_factories: reg[key.model_type][key.culture]=1
    for g in getters:
        # model type name
        for code in cases:
            for fb in (True,False):
                try:
                    m=getattr(rec,g)(code,fb); out=('model',id(m))
                except ValueError as e: out=('ValueError',)
                except Exception as e: out=('EXC',repr(e))
                # find which culture this model is cached under
                cu=None
                if out[0]=='model':
                    for k,v in ModelFactory._ModelFactory__cache.items():
                        if v is m: cu=(k.model_type,k.culture); break
                print(Rcls.__name__,g,repr(code),fb,out[0],cu)
