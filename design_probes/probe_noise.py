import warnings, json, glob, re, collections, datetime as dt, sys, os, random
warnings.simplefilter('ignore')
from multiprocessing import Pool
CULT={'Chinese':'zh-cn','Dutch':'nl-nl','English':'en-us','French':'fr-fr','Italian':'it-it','Japanese':'ja-jp','Portuguese':'pt-br','Spanish':'es-es','German':'de-de'}
FW='０１２３４５６７８９：－，／．（）％、ＧＭＴＫｋ'
def N(s):
    out=[]
    m={'０':'0','１':'1','２':'2','３':'3','４':'4','５':'5','６':'6','７':'7','８':'8','９':'9','：':':','－':'-','，':',','／':'/','Ｇ':'G','Ｍ':'M','Ｔ':'T','Ｋ':'K','ｋ':'k','．':'.','（':'(','）':')','％':'%','、':','}
    for c in s:
        c=m.get(c,c); l=c.lower(); out.append(l if len(l)==1 else c)
    return ''.join(out)
def work(args):
    cu,seed,n,use_i=args
    from recognizers_number import NumberRecognizer
    from recognizers_number_with_unit import NumberWithUnitRecognizer
    from recognizers_sequence import SequenceRecognizer
    from recognizers_choice.choice.recognizers_choice import ChoiceRecognizer
    from recognizers_date_time import DateTimeRecognizer
    models=[]
    for rec in (NumberRecognizer(), NumberWithUnitRecognizer(), SequenceRecognizer(), ChoiceRecognizer(), DateTimeRecognizer()):
        for key in rec.model_factory.model_factories:
            if key.culture==cu: models.append((type(rec).__name__,key.model_type,rec.model_factory.get_model(key.model_type,key.culture,False,rec.options)))
    lang=[k for k,v in CULT.items() if v==cu][0]
    words=set()
    for f in glob.glob(f'/repo/Specs/*/{lang}/*.json'):
        for s in json.load(open(f,encoding='utf-8-sig')):
            if 'python' in s.get('NotSupported','') or 'python' in s.get('NotSupportedByDesign',''): continue
            for w in s['Input'].split(): words.add(w)
    words=sorted(words)
    rnd=random.Random(f'{cu}:{seed}')
    extra=['12','3.5','1,000','0','-7','99%','$','€','@','#','.',',','-','/','(',')',':','１２','３．５','：','％','（','）','、','中','三','十','年','月','日','点',' ','👍','ß','K']+(['İ','İstanbul'] if use_i else [])
    viol=collections.Counter(); ex=collections.defaultdict(list); calls=0; ents=0
    for i in range(n):
        k=rnd.randrange(1,16)
        toks=[rnd.choice(words) if rnd.random()<0.7 else rnd.choice(extra) for _ in range(k)]
        sep=' ' if cu not in('zh-cn','ja-jp') or rnd.random()<0.5 else ''
        q=sep.join(toks)
        ref=dt.datetime(rnd.randrange(1950,2091),rnd.randrange(1,13),rnd.randrange(1,29),rnd.randrange(24),rnd.randrange(60))
        for rn,mt,m in models:
            try: r=m.parse(q,ref) if mt=='DateTimeModel' else m.parse(q)
            except Exception as e:
                viol[(mt,'RAISE '+type(e).__name__)]+=1
                if len(ex[(mt,'RAISE')])<2: ex[(mt,'RAISE')].append((q,repr(e)))
                continue
            calls+=1
            spans=[]
            for e in r:
                if e is None: viol[(mt,'None')]+=1; continue
                ents+=1
                if not (0<=e.start<=e.end<len(q)):
                    sig=(mt,'bounds','zero-len' if e.end==e.start-1 else 'other'); viol[sig]+=1
                    if len(ex[sig])<3: ex[sig].append((q,e.text,e.start,e.end))
                elif N(q[e.start:e.end+1]).strip()!=N(e.text).strip():
                    sig=(mt,'text','len-changed' if len(q.lower())!=len(q) else 'other'); viol[sig]+=1
                    if len(ex[sig])<3: ex[sig].append((q,e.text,e.start,e.end,q[e.start:e.end+1]))
                spans.append((e.start,e.end,e.type_name))
            spans.sort()
            for a,b in zip(spans,spans[1:]):
                if b[0]<=a[1]:
                    rel='same-start' if a[0]==b[0] else 'contained' if b[1]<=a[1] else 'crossing'
                    sig=(mt,'overlap',a[2].split('.')[-1]+'+'+b[2].split('.')[-1],rel); viol[sig]+=1
                    if len(ex[sig])<2: ex[sig].append((q,[(e.text,e.start,e.end,e.type_name) for e in r if e]))
    return cu,calls,ents,viol,ex
if __name__=='__main__':
    jobs=[(cu,s,600,False) for cu in ['en-us','es-es','fr-fr','nl-nl','zh-cn','de-de','pt-br','it-it'] for s in (0,1)]
    with Pool(16) as p: res=p.map(work,jobs)
    agg=collections.defaultdict(collections.Counter); exs={}
    tc=te=0
    for cu,calls,ents,viol,ex in res:
        tc+=calls; te+=ents
        for k,v in viol.items(): agg[cu][k]+=v
        for k,v in ex.items(): exs.setdefault((cu,k),v)
    print('calls',tc,'entities',te)
    for cu in agg:
        print(cu)
        for k,v in sorted(agg[cu].items(), key=str): print('   ',k,v)
    for k,v in sorted(exs.items(), key=str):
        print(k); 
        for e in v[:2]: print('      ',str(e)[:300])
