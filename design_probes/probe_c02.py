import warnings, threading, decimal
warnings.simplefilter('ignore')
from recognizers_number import recognize_number, recognize_percentage
from recognizers_number_with_unit import recognize_currency
from recognizers_date_time import recognize_datetime
qs=[('en-us','three point one four'),('en-us','one third'),('en-us','2/3'),('en-us','1.1^23'),('en-us','five and three quarters'),('zh-cn','三点一四'),('zh-cn','百分之三十三点三'),('ja-jp','三分の一'),('fr-fr','trois virgule un quatre'),('en-us','0.123456789012345678'),('en-us','1e10'),('en-us', 'one hundred and one point five five five five'),('zh-cn','十二点五'),('zh-cn','三分之一'),('en-us','two and a half dozen'),('en-us','1,234,567.891234567891')]
def run(tag,out):
    out[tag]=[(c,q,[(e.text,e.resolution['value']) for e in recognize_number(q,c) if e]) for c,q in qs]
    out[tag+'prec']=decimal.getcontext().prec
o={}
run('main',o)
t=threading.Thread(target=run,args=('thr',o)); t.start(); t.join()
print(o['mainprec'],o['thrprec'])
for a,b in zip(o['main'],o['thr']):
    print('SAME' if a==b else 'DIFF', a, '' if a==b else b)
