import collections, random, warnings, string
warnings.simplefilter('ignore')
from recognizers_sequence import SequenceRecognizer
from recognizers_sequence.resources.base_url import BaseURL
rec=SequenceRecognizer('en-us')
em=rec.get_email_model(); url=rec.get_url_model('en-us'); ht=rec.get_hashtag_model(); me=rec.get_mention_model(); ph=rec.get_phone_number_model('en-us')
rnd=random.Random(2)
bad=collections.Counter(); tot=collections.Counter(); ex=collections.defaultdict(list)
def chk(k,model,s,carriers=('{}','please use {} ok','({})','{} .')):
    for c in carriers:
        q=c.format(s); st=q.index(s); r=model.parse(q)
        ok=len(r)==1 and r[0].start==st and r[0].end==st+len(s)-1 and r[0].resolution['value']==s.lower()==r[0].text
        tot[k]+=1
        if not ok:
            bad[k]+=1
            if len(ex[k])<5: ex[k].append((q,[(x.text,x.start,x.end,x.resolution) for x in r]))
L=string.ascii_lowercase; LD=L+string.digits
def w(a,n1,n2): return ''.join(rnd.choice(a) for _ in range(rnd.randrange(n1,n2)))
tlds=[t for t in BaseURL.TldList if t.isalpha()]
for _ in range(400):
    local=w(L,1,2)+w(LD+'._-+',0,8)+w(LD,1,2); dom=w(LD,1,8)+rnd.choice(['','.'+w(L,2,6),'-'+w(LD,1,4)]); tld=rnd.choice(['com','org','net','io','co.uk','edu','de','info'])
    chk('email',em,f'{local}@{dom}.{tld}')
    host=w(L,1,2)+w(LD+'-',0,10)+w(LD,1,2); t=rnd.choice(tlds)
    path=rnd.choice(['','/','/'+w(LD,1,8),'/'+w(LD,1,5)+'/'+w(LD,1,5)+'.html','/?q='+w(LD,1,5)])
    for pre in ('http://','https://','www.','https://www.',''):
        chk('url '+(pre or 'bare'),url,f'{pre}{host}.{t}{path}', carriers=('{}','please use {} ok','go to {}'))
    tag=w(L+string.ascii_uppercase+string.digits+'_',1,15)
    chk('hashtag',ht,'#'+tag, carriers=('{}','nice #x and {} ok','love {}'))
    chk('mention',me,'@'+tag, carriers=('{}','hi {} ok','cc {}'))
for _ in range(300):
    a,b,c=rnd.randrange(200,1000),rnd.randrange(200,1000),rnd.randrange(0,10000)
    for k,s in (('phone us-dash',f'{a}-{b}-{c:04d}'),('phone us-paren',f'({a}) {b}-{c:04d}'),('phone +1',f'+1 {a}-{b}-{c:04d}'),('phone dots',f'{a}.{b}.{c:04d}'),('phone intl',f'+44 20 {rnd.randrange(1000,10000)} {rnd.randrange(1000,10000)}')):
        for cq in ('{}','my number is {}','call {} now'):
            q=cq.format(s); st=q.index(s); r=ph.parse(q)
            ok=len(r)==1 and r[0].start==st and r[0].end==st+len(s)-1 and r[0].resolution['value']==s==r[0].text
            tot[k]+=1
            if not ok:
                bad[k]+=1
                if len(ex[k])<4: ex[k].append((q,[(x.text,x.start,x.end,x.resolution) for x in r]))
for k in tot:
    print(k,tot[k],bad[k])
    for e in ex[k]: print('   ',str(e)[:230])
