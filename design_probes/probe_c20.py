import warnings, collections, itertools
warnings.simplefilter('ignore')
from recognizers_choice.choice.recognizers_choice import recognize_boolean, ChoiceRecognizer
from recognizers_number import recognize_number
from recognizers_sequence import recognize_email
from recognizers_date_time import recognize_datetime
import datetime as dt
m=ChoiceRecognizer('en-us').get_boolean_model('en-us')
T=['true','yes','yep','yup','yeah','y','sure','ok','agree','\U0001f44c']; F=['false','nope','nop','no','not ok','not  ok','disagree','\U0001F44E','\U0001F590']
bad=collections.Counter(); tot=collections.Counter(); ex=collections.defaultdict(list)
def var(w): return {w,w.upper(),w.capitalize(),w.title()}
wraps=['{}','{}.','{}!','  {}  ','"{}"','well {} then','hmm , {} !','({})','{} please','I think {}','{}, thanks']
for pol,words in ((True,T),(False,F)):
    for w in words:
        for v in var(w):
            for wr in wraps:
                q=wr.format(v); st=q.index(v)
                try:
                    r=m.parse(q)
                    ok=len(r)==1 and r[0].start==st and r[0].end==st+len(v)-1 and r[0].resolution['value'] is pol and 0<=r[0].resolution['score']<=1
                    info=(q,[(x.text,x.start,x.end,x.resolution) for x in r])
                except Exception as e:
                    ok=False; info=(q,repr(e))
                k=('T' if pol else 'F'); tot[k]+=1
                if not ok:
                    bad[k]+=1
                    if len(ex[k])<8: ex[k].append(info)
for q in ['','   ','hello world','maybe later','\t\n','12345','the quick brown fox','.','?!','nothing','yesterday','okay','nope!','nobody','yessir']:
    try: r=m.parse(q); info=(q,[(x.text,x.resolution) for x in r]); ok=len(r)==0
    except Exception as e: ok=False; info=(q,repr(e))
    tot['neutral']+=1
    if not ok: bad['neutral']+=1; ex['neutral'].append(info)
for k in tot:
    print(k,tot[k],bad[k])
    for e in ex[k]: print('   ',e)
print('--- C01 probes')
for q in ['İstanbul 25 people','İİİ 3 and 4','ＡＢＣ １２３ and ４５','I have １２ apples','İ yes']:
    for f,name in ((lambda s: recognize_number(s,'en-us'),'num'),(lambda s: recognize_datetime(s+' on March 5, 2019','en-us',reference=dt.datetime(2016,1,1)),'dt'),(lambda s: m.parse(s),'bool')):
        try: print(name,repr(q),[(e.text,e.start,e.end, (q+' on March 5, 2019' if name=='dt' else q)[e.start:e.end+1]) for e in f(q)])
        except Exception as e: print(name,repr(q),'EXC',repr(e))
