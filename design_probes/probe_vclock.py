import sys, warnings, datetime as _dt, json, glob, collections
warnings.simplefilter('ignore')
from recognizers_date_time import DateTimeRecognizer
import recognizers_date_time
class VClock:
    now=_dt.datetime(2000,1,1)
class VDT(_dt.datetime):
    @classmethod
    def now(cls, tz=None): VClock.reads+=1; return VClock.now
    @classmethod
    def today(cls): VClock.reads+=1; return VClock.now
VClock.reads=0
n=0
for name,mod in list(sys.modules.items()):
    if name.startswith(('recognizers_date_time','recognizers_number','recognizers_text','datatypes_timex')) and getattr(mod,'datetime',None) is _dt.datetime:
        mod.datetime=VDT; n+=1
print('patched modules',n)
cu=sys.argv[1]; lang=sys.argv[2]
m=DateTimeRecognizer(cu).get_datetime_model(cu)
inputs=set()
for f in glob.glob(f'/repo/Specs/DateTime/{lang}/*.json'):
    for s in json.load(open(f,encoding='utf-8-sig')):
        if 'python' in s.get('NotSupported','') or 'python' in s.get('NotSupportedByDesign',''): continue
        ctx=s.get('Context') or {}; ref=(ctx.get('ReferenceDateTime') or '2016-11-07T00:00:00')[:19]
        inputs.add((s['Input'],ref))
def run(q,ref): return [(e.text,e.start,e.end,e.type_name,json.dumps(e.resolution,sort_keys=True)) for e in m.parse(q,_dt.datetime.strptime(ref,'%Y-%m-%dT%H:%M:%S'))]
diffs=[]
clocks=[_dt.datetime(1971,2,4,3,0),_dt.datetime(2093,12,31,23,30),_dt.datetime(2016,2,29,12,0)]
for q,ref in sorted(inputs):
    outs=[]
    for c in clocks:
        VClock.now=c; outs.append(run(q,ref))
    if any(o!=outs[0] for o in outs): diffs.append((q,ref,outs))
print(cu,'inputs',len(inputs),'clock reads',VClock.reads,'diffs',len(diffs))
for d in diffs[:8]:
    print(d[0],d[1])
    for o in d[2]: print('     ',str(o)[:260])
