import collections, random, warnings
warnings.simplefilter('ignore')
from recognizers_text.matcher.string_matcher import StringMatcher
from recognizers_text.matcher.simple_tokenizer import SimpleTokenizer
from recognizers_text.matcher.number_with_unit_tokenizer import NumberWithUnitTokenizer
from recognizers_text.matcher.match_strategy import MatchStrategy
ALPHA=list('abAB') + list('019') + list('$.-/') + list('中日あア한') + [' ',' ','\t']
def is_cjk_simple(c):
    o=ord(c)
    return (0x4E00<=o<=0x9FBF or 0x3400<=o<=0x4DBF or 0x3040<=o<=0x309F or 0x30A0<=o<=0x30FF or 0xFF66<=o<=0xFF9D or 0xAC00<=o<=0xD7AF or 0x1100<=o<=0x11FF or 0x3130<=o<=0x318F or 0xFFB0<=o<=0xFFDC)
def is_cj(c):
    o=ord(c)
    return (0x4E00<=o<=0x9FBF or 0x3400<=o<=0x4DBF or 0x3040<=o<=0x309F or 0x30A0<=o<=0x30FF or 0xFF66<=o<=0xFF9D)
def ref_simple(s):
    toks=[]; cur=None
    for i,c in enumerate(s):
        if c.isspace():
            if cur is not None: toks.append((cur,i)); cur=None
        elif not (c.isdigit() or c.isalpha()) or is_cjk_simple(c):
            if cur is not None: toks.append((cur,i)); cur=None
            toks.append((i,i+1))
        else:
            if cur is None: cur=i
    if cur is not None: toks.append((cur,len(s)))
    return toks
def cls(c):
    if c=='$': return 'S'
    if c.isdigit(): return 'D'
    if c.isalpha(): return 'A'
    return None
def ref_nwu(s):
    toks=[]; cur=None
    for i,c in enumerate(s):
        if c.isspace():
            if cur is not None: toks.append((cur,i)); cur=None
        elif (c!='$' and not (c.isdigit() or c.isalpha())) or is_cj(c):
            if cur is not None: toks.append((cur,i)); cur=None
            toks.append((i,i+1))
        else:
            if cur is not None:
                p=s[i-1]
                split = (c.isalpha() and p.isdigit()) or (c.isdigit() and p.isalpha()) or (c.isdigit() and p=='$') or (c=='$' and p.isdigit())
                if split: toks.append((cur,i)); cur=i
            else: cur=i
    if cur is not None: toks.append((cur,len(s)))
    return toks
rnd=random.Random(4)
def rs(n): return ''.join(rnd.choice(ALPHA) for _ in range(n))
bad=collections.Counter(); tot=collections.Counter(); ex=collections.defaultdict(list)
for name,T,ref in (('simple',SimpleTokenizer,ref_simple),('nwu',NumberWithUnitTokenizer,ref_nwu)):
    for it in range(4000):
        q=rs(rnd.randrange(0,41))
        got=[(t.start,t.start+t.length,t.text) for t in T().tokenize(q)]
        exp=[(a,b,q[a:b]) for a,b in ref(q)]
        tot[name+'-tok']+=1
        # structural: in order, non-overlapping, cover all non-space exactly once, text==slice
        cov=[0]*len(q)
        okS=True; last=0
        for a,b,t in got:
            if a<last or q[a:b]!=t or a>=b: okS=False
            last=b
            for i in range(a,b): cov[i]+=1
        okS = okS and all((cov[i]==1)==(not q[i].isspace()) for i in range(len(q)))
        if got!=exp or not okS:
            bad[name+'-tok']+=1
            if len(ex[name+'-tok'])<4: ex[name+'-tok'].append((q,got,exp))
        # matcher
        nph=rnd.randrange(1,31); phrases=[]
        for _ in range(nph):
            p=rs(rnd.randrange(1,6))
            if rnd.random()<0.5 and len(q)>3:
                a=rnd.randrange(len(q)); p=q[a:a+rnd.randrange(1,6)]
            phrases.append(p)
        phrases=[p for p in phrases if ref(p)]   # at least one token
        if not phrases: continue
        ids=['id%d'%i for i in range(len(phrases))]
        m=StringMatcher(MatchStrategy.TrieTree, T()); m.init(list(phrases), list(ids))
        res=m.find(q)
        gotm=sorted((r.start,r.length,r.text,tuple(r.canonical_values)) for r in res)
        qt=ref(q); qtx=[q[a:b] for a,b in qt]
        expd=collections.OrderedDict()
        for p,i in zip(phrases,ids):
            pt=tuple(p[a:b] for a,b in ref(p))
            expd.setdefault(pt,[]).append(i)
        expm=[]
        for pt,idl in expd.items():
            L=len(pt)
            for s0 in range(len(qtx)-L+1):
                if tuple(qtx[s0:s0+L])==pt:
                    a=qt[s0][0]; b=qt[s0+L-1][1]
                    expm.append((a,b-a,q[a:b],tuple(idl)))
        expm.sort()
        tot[name+'-match']+=1
        if gotm!=expm:
            bad[name+'-match']+=1
            if len(ex[name+'-match'])<4: ex[name+'-match'].append((q,phrases,gotm,expm))
for k in tot:
    print(k,tot[k],bad[k])
    for e in ex[k]: print('   ',e)
