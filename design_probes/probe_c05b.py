import sys, collections, warnings
warnings.simplefilter('ignore')
from recognizers_text import Culture, QueryProcessor
from recognizers_number_with_unit import NumberWithUnitRecognizer
cultures = ['en-us','es-es','fr-fr','pt-br','nl-nl','zh-cn','de-de','it-it']
rec = NumberWithUnitRecognizer()
models = {'currency':'CurrencyModel','dimension':'DimensionModel','temperature':'TemperatureModel','age':'AgeModel'}
tot=collections.Counter(); bad=collections.Counter(); ex=collections.defaultdict(list); cls=collections.Counter()
for c in cultures:
    for typ, mname in models.items():
        try: m = rec.get_model(mname, c, False)
        except ValueError: continue
        ep = m.extractor_parser[0]
        cfg = ep.extractor.config
        # accept-set index over this pair's tables, keyed by normalised form
        idx = collections.defaultdict(set)
        for table in (cfg.suffix_list, cfg.prefix_list):
            for unit, forms in (table or {}).items():
                for form in str(forms).split('|'):
                    f=form.strip()
                    if f: idx[f].add(unit); idx[f.lower()].add(unit)
        for kind, table in (('suffix', cfg.suffix_list), ('prefix', cfg.prefix_list)):
            for unit, forms in (table or {}).items():
                for form in str(forms).split('|'):
                    form=form.strip()
                    if not form: continue
                    sep = '' if c=='zh-cn' and not form[0].isascii() else ' '
                    q = f'12{sep}{form}' if kind=='suffix' else f'{form}{sep}12'
                    nq = QueryProcessor.preprocess(q, True)
                    nform = nq[3:] if kind=='suffix' else nq[:-3]
                    nform = nform.strip()
                    accept = idx.get(nform, set()) | idx.get(form,set())
                    res = m.parse(q)
                    tot[(c,typ,kind)]+=1
                    ok = len(res)==1 and res[0].start==0 and res[0].end==len(q)-1 and res[0].resolution and res[0].resolution.get('value')=='12' and res[0].resolution.get('unit') in accept
                    if not ok:
                        bad[(c,typ,kind)]+=1
                        k = 'case-dead' if nform not in [x for x in idx if x==nform and x in {f2.strip() for t in (cfg.suffix_list,cfg.prefix_list) for fs in (t or {}).values() for f2 in str(fs).split('|')}] else ('none' if not res else ('split' if len(res)>1 else ('nonum' if res[0].resolution.get('value') is None else ('span' if (res[0].start,res[0].end)!=(0,len(q)-1) else 'unit'))))
                        cls[k]+=1
                        if k!='case-dead' and len(ex[(c,typ,kind,k)])<5: ex[(c,typ,kind,k)].append((q, unit, [(r.text,r.start,r.end,r.resolution) for r in res]))
for k in sorted(tot): print(k, tot[k], 'bad', bad[k])
for k in sorted(ex):
    print(k)
    for e in ex[k]: print('     ', e)
print(sum(tot.values()), sum(bad.values()), cls)
