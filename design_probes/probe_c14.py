import collections, itertools, datetime as dt, random
import datatypes_timex_expression as d
print(d.__file__)
from datatypes_timex_expression import Timex, Time
FIELDS=['now','years','months','weeks','days','hours','minutes','seconds','year','month','day_of_month','day_of_week','season','week_of_year','weekend','week_of_month','part_of_day','hour','minute','second']
def fv(t): return tuple(getattr(t,f) for f in FIELDS)
rnd=random.Random(1)
def gen():
    ys=[1,999,1900,2016,2020,9999,rnd.randrange(1,10000)]
    for y in ys:
        yield 'year',f'{y:04d}'
        for mo in range(1,13):
            yield 'year-month',f'{y:04d}-{mo:02d}'
            for dd in (1,15,28,29,30,31):
                yield 'date',f'{y:04d}-{mo:02d}-{dd:02d}'
        for s in ('SP','SU','FA','WI'): yield 'year-season',f'{y:04d}-{s}'
        for w in (1,9,10,52,53):
            yield 'week',f'{y:04d}-W{w:02d}'; yield 'weekend',f'{y:04d}-W{w:02d}-WE'
    for mo in range(1,13):
        yield 'month',f'XXXX-{mo:02d}'
        for dd in (1,9,10,29,31): yield 'month-day',f'XXXX-{mo:02d}-{dd:02d}'
        for w in range(1,6):
            yield 'week-of-month',f'XXXX-{mo:02d}-W{w:02d}'
            for dow in range(1,8): yield 'wom-dow',f'XXXX-{mo:02d}-WXX-{w}-{dow}'
    for dow in range(1,8): yield 'weekday',f'XXXX-WXX-{dow}'
    for s in ('SP','SU','FA','WI'): yield 'season',s
    for h in range(24):
        yield 'T',f'T{h:02d}'
        for mi in (0,1,30,59):
            yield 'T',f'T{h:02d}:{mi:02d}'
            for se in (0,1,59): yield 'T',f'T{h:02d}:{mi:02d}:{se:02d}'
    for p in ('DT','NI','MO','AF','EV'): yield 'partofday','T'+p
    for a in ('1','2','10','0.5','1.5','.5','100','2.25'):
        for u in 'YMWD': yield 'dur','P'+a+u
        for u in 'HMS': yield 'dur','PT'+a+u
    yield 'now','PRESENT_REF'
    for date in ('2017-09-27','XXXX-WXX-3','XXXX-12-25'):
        for t in ('T04','T16:30','T23:59:59','TEV'): yield 'date+time',date+t
bad=collections.Counter(); tot=collections.Counter(); ex=collections.defaultdict(list)
for k,s in gen():
    tot[k]+=1
    try:
        t=Timex(s); out=t.timex_value(); t2=Timex(out); out2=t2.timex_value()
        prob=[]
        if fv(t)!=fv(t2): prob.append('fields')
        if out!=out2: prob.append('idempotent')
        if out!=s: prob.append('canonical')
    except Exception as e:
        prob=['EXC '+repr(e)]; out=None
    if prob:
        bad[k]+=1
        if len(ex[k])<4: ex[k].append((s,out,prob))
for k in tot:
    print(k,tot[k],bad[k])
    for e in ex[k]: print('    ',e)
# from_*
b=0
for _ in range(2000):
    x=dt.datetime(rnd.randrange(1,10000),rnd.randrange(1,13),rnd.randrange(1,29),rnd.randrange(24),rnd.randrange(60),rnd.randrange(60))
    a=Timex.from_date(x).timex_value(); e=x.strftime('%Y-%m-%d') if x.year>=1000 else f'{x.year:04d}-{x.month:02d}-{x.day:02d}'
    a2=Timex.from_date_time(x).timex_value()
    e2=e+('T%02d'%x.hour if (x.minute==0 and x.second==0) else 'T%02d:%02d'%(x.hour,x.minute) if x.second==0 else 'T%02d:%02d:%02d'%(x.hour,x.minute,x.second))
    a3=Timex.from_time(Time(x.hour,x.minute,x.second)).timex_value()
    if (a,a2,a3)!=(e,e2,e2[10:]):
        b+=1
        if b<5: print('from_*',x,a,a2,a3)
print('from bad',b)
