import warnings, random, collections, datetime as dt, calendar
warnings.simplefilter('ignore')
from recognizers_date_time import DateTimeRecognizer
m = DateTimeRecognizer('en-us').get_datetime_model('en-us')
bad=collections.Counter(); tot=collections.Counter(); ex=collections.defaultdict(list)
def run(k,q,ref,pred,span=None):
    r=m.parse(q,ref); tot[k]+=1
    ok=False
    try:
        ok = len(r)==1 and r[0].start==0 and r[0].end==len(q)-1 and r[0].resolution is not None and pred(r[0])
    except Exception as e: ok=False
    if not ok:
        bad[k]+=1
        if len(ex[k])<5: ex[k].append((q,ref.isoformat(),[(x.text,x.type_name,x.resolution) for x in r]))
rnd=random.Random(6)
refs=[dt.datetime(2016,11,7,10,30),dt.datetime(2020,2,29,0,0),dt.datetime(2019,12,31,23,59,59),dt.datetime(2021,1,1),dt.datetime(2021,3,1),dt.datetime(2100-20,2,28)]
for _ in range(60): refs.append(dt.datetime(1950,1,1)+dt.timedelta(days=rnd.randrange(51500),seconds=rnd.randrange(86400)))
MON=['January','February','March','April','May','June','July','August','September','October','November','December']
WD=['monday','tuesday','wednesday','thursday','friday','saturday','sunday']
def vals(e): return e.resolution['values']
def occ(mo,d,R):
    D=R.date()
    def mk(y):
        try: return dt.date(y,mo,d)
        except ValueError: return None
    past=None; y=D.year
    while past is None:
        c=mk(y)
        if c and c<D: past=c
        y-=1
    fut=None; y=D.year
    while fut is None:
        c=mk(y)
        if c and c>=D: fut=c
        y+=1
    return past,fut
for R in refs:
    D=R.date()
    mds=[(rnd.randrange(1,13),rnd.randrange(1,29)) for _ in range(12)]+[(2,29),(2,28),(12,31),(1,1),(D.month,D.day)]+[((D+dt.timedelta(days=1)).month,(D+dt.timedelta(days=1)).day),((D-dt.timedelta(days=1)).month,(D-dt.timedelta(days=1)).day)]
    for mo,d in mds:
        if mo==2 and d==29 and False: continue
        try: dt.date(2000,mo,d)
        except ValueError: continue
        p,f=occ(mo,d,R)
        for name,q in (('Month d',f'{MON[mo-1]} {d}'),('m/d',f'{mo}/{d}'),('d Month',f'{d} {MON[mo-1]}')):
            run(name,q,R,lambda e: e.type_name=='datetimeV2.date' and [v['value'] for v in vals(e)]==[p.isoformat(),f.isoformat()] and all(v['timex']==f'XXXX-{mo:02d}-{d:02d}' for v in vals(e)))
    for i,w in enumerate(WD):
        delta=(i-D.weekday())%7
        f=D+dt.timedelta(days=delta); p=f-dt.timedelta(days=7)
        run('weekday',w,R,lambda e: e.type_name=='datetimeV2.date' and [v['value'] for v in vals(e)]==[p.isoformat(),f.isoformat()] and all(v['timex']==f'XXXX-WXX-{i+1}' for v in vals(e)))
for k in sorted(tot):
    print(k, tot[k], bad[k])
    for e in ex[k]: print('    ',e)
