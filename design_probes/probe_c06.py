import warnings, datetime as dt, random, collections
warnings.simplefilter('ignore')
from recognizers_date_time import recognize_datetime, DateTimeRecognizer
m = DateTimeRecognizer('en-us').get_datetime_model('en-us')
MON=['January','February','March','April','May','June','July','August','September','October','November','December']
ABB=['Jan','Feb','Mar','Apr','May','Jun','Jul','Aug','Sep','Oct','Nov','Dec']
def suf(d): return 'th' if 11<=d%100<=13 else {1:'st',2:'nd',3:'rd'}.get(d%10,'th')
layouts = {
 'iso': lambda d: f'{d.year:04d}-{d.month:02d}-{d.day:02d}',
 'mdy/': lambda d: f'{d.month}/{d.day}/{d.year}',
 'mdy/0': lambda d: f'{d.month:02d}/{d.day:02d}/{d.year}',
 'mdy-': lambda d: f'{d.month}-{d.day}-{d.year}',
 'mdy.': lambda d: f'{d.month}.{d.day}.{d.year}',
 'Month d, yyyy': lambda d: f'{MON[d.month-1]} {d.day}, {d.year}',
 'Month d yyyy': lambda d: f'{MON[d.month-1]} {d.day} {d.year}',
 'Month dth, yyyy': lambda d: f'{MON[d.month-1]} {d.day}{suf(d.day)}, {d.year}',
 'Mon d, yyyy': lambda d: f'{ABB[d.month-1]} {d.day}, {d.year}',
 'd Month yyyy': lambda d: f'{d.day} {MON[d.month-1]} {d.year}',
 'dth of Month yyyy': lambda d: f'{d.day}{suf(d.day)} of {MON[d.month-1]} {d.year}',
 'the dth of Month, yyyy': lambda d: f'the {d.day}{suf(d.day)} of {MON[d.month-1]}, {d.year}',
 'yyyy/m/d': lambda d: f'{d.year}/{d.month}/{d.day}',
 'mdy/yy': lambda d: f'{d.month}/{d.day}/{d.year%100:02d}',
}
rnd = random.Random(1)
bad=collections.Counter(); tot=collections.Counter(); ex=collections.defaultdict(list)
dates=[dt.date(1900,1,1),dt.date(2099,12,31),dt.date(2000,2,29),dt.date(1900,2,28),dt.date(2024,2,29),dt.date(2016,12,31),dt.date(2011,11,11),dt.date(2012,12,12),dt.date(2001,1,2),dt.date(2001,2,1)]
for _ in range(300):
    dates.append(dt.date(1900,1,1)+dt.timedelta(days=rnd.randrange(73049)))
carriers=['{}','I will leave on {}','{} is the deadline','see you on {} .']
for d in dates:
    for name,f in layouts.items():
        ref = dt.datetime(rnd.randrange(1950,2091), rnd.randrange(1,13), rnd.randrange(1,29), rnd.randrange(24), rnd.randrange(60))
        s=f(d); c=rnd.choice(carriers); q=c.format(s); st=q.index(s)
        res = m.parse(q, ref)
        tot[name]+=1
        exp = d.isoformat()
        ok = len(res)==1 and res[0].type_name=='datetimeV2.date' and res[0].start==st and res[0].end==st+len(s)-1 and len(res[0].resolution['values'])==1 and res[0].resolution['values'][0].get('timex')==exp and res[0].resolution['values'][0].get('value')==exp
        if name=='mdy/yy':
            pass
        if not ok:
            bad[name]+=1
            if len(ex[name])<4: ex[name].append((q, ref.isoformat(), [(r.text,r.type_name,r.start,r.end,r.resolution['values']) for r in res]))
for k in tot:
    print(k, tot[k], bad[k])
    for e in ex[k]: print('    ',e)
