import warnings, datetime as dt
warnings.simplefilter('ignore')
from recognizers_date_time import DateTimeRecognizer
from recognizers_date_time.date_time.base_merged import BaseMergedExtractor
m=DateTimeRecognizer('en-us').get_datetime_model('en-us')
def disjoint(ers):
    s=sorted((e.start,e.start+e.length-1,e.text,e.type) for e in ers)
    return [ (a,b) for a,b in zip(s,s[1:]) if b[0]<=a[1]]
orig_mod=BaseMergedExtractor.add_mod
def add_mod(self, ers, source):
    print('  at add_mod entry overlaps:', disjoint(ers))
    r=orig_mod(self, ers, source)
    print('  at add_mod exit  overlaps:', disjoint(r))
    return r
BaseMergedExtractor.add_mod=add_mod
orig_ext=BaseMergedExtractor.extract
def ext(self, source, reference=None):
    r=orig_ext(self, source, reference)
    print('  extractor result:', [(e.start,e.start+e.length-1,e.text,e.type) for e in r])
    return r
BaseMergedExtractor.extract=ext
for q in ["I'll be out between 7 and 9:30 last night","It will happen between 10 and 11:30 on 1/1/2015","call you on Aug/3-Friday at 12:00 PM PT", "He scores between negative ten and fifteen."]:
    print(q)
    r=m.parse(q, dt.datetime(2016,11,7))
    print('  model:', [(e.start,e.end,e.text,e.type_name) for e in r])
