import warnings, json, glob, re, collections, datetime as dt
warnings.simplefilter('ignore')
from multiprocessing import Pool
CULT={'Chinese':'zh-cn','Dutch':'nl-nl','English':'en-us','French':'fr-fr','Italian':'it-it','Portuguese':'pt-br','Spanish':'es-es','German':'de-de','EnglishOthers':'en-us'}
D=r'\d{4}-\d{2}-\d{2}'; T=r'T\d{2}(?::\d{2}(?::\d{2})?)?'
def pt(t):
    p=t[1:].split(':'); p+=['00']*(3-len(p)); return ':'.join(p)
def check(v):
    tx=v.get('timex') or ''
    m=re.fullmatch(r'\((.*),(.*),(P.*)\)',tx)
    if not m: return None
    s,e,d=m.groups(); st=v.get('start'); en=v.get('end')
    if st is None or en is None: return None
    if re.fullmatch(D,s) and re.fullmatch(D,e):
        if (st,en)!=(s,e): return 'date-endpoints'
        a=dt.date.fromisoformat(s); b=dt.date.fromisoformat(e)
        mm=re.fullmatch(r'P(-?\d+(?:\.\d+)?)([DWMY])',d)
        if not mm: return 'date-dur-form:'+d
        n=float(mm.group(1)); u=mm.group(2)
        exp={'D':(b-a).days,'W':(b-a).days/7,'M':(b.year-a.year)*12+b.month-a.month,'Y':b.year-a.year}[u]
        if u in 'MY' and ((u=='M' and a.day!=b.day) or (u=='Y' and (a.month,a.day)!=(b.month,b.day))): return 'date-dur-unit-inexact'
        return None if n==exp else 'date-dur'
    if re.fullmatch(T,s) and re.fullmatch(T,e):
        if (st,en)!=(pt(s),pt(e)): return 'time-endpoints'
        def sec(x): h,m_,s_=map(int,pt(x).split(':')); return h*3600+m_*60+s_
        mm=re.fullmatch(r'PT(?:(\d+)H)?(?:(\d+)M)?(?:(\d+)S)?',d)
        if not mm: return 'time-dur-form:'+d
        tot=int(mm.group(1) or 0)*3600+int(mm.group(2) or 0)*60+int(mm.group(3) or 0)
        return None if tot==sec(e)-sec(s) else 'time-dur'
    m2=re.fullmatch(f'({D})({T})',s); m3=re.fullmatch(f'({D})({T})',e)
    if m2 and m3:
        es=m2.group(1)+' '+pt(m2.group(2)); ee=m3.group(1)+' '+pt(m3.group(2))
        if (st,en)!=(es,ee): return 'dt-endpoints'
        a=dt.datetime.fromisoformat(es); b=dt.datetime.fromisoformat(ee)
        mm=re.fullmatch(r'PT(\d+(?:\.\d+)?)([HMS])',d)
        if mm:
            n=float(mm.group(1))*{'H':3600,'M':60,'S':1}[mm.group(2)]
            return None if n==(b-a).total_seconds() else 'dt-dur'
        return 'dt-dur-form:'+d
    return None
def work(cu):
    from recognizers_date_time import DateTimeRecognizer
    m=DateTimeRecognizer(cu).get_datetime_model(cu,False)
    inputs=set()
    for f in glob.glob('/repo/Specs/DateTime/*/*.json'):
        if CULT.get(f.split('/')[4])!=cu: continue
        for s in json.load(open(f,encoding='utf-8-sig')):
            if 'python' in s.get('NotSupported','') or 'python' in s.get('NotSupportedByDesign',''): continue
            ctx=s.get('Context') or {}; ref=(ctx.get('ReferenceDateTime') or '2016-11-07T00:00:00')[:19]
            inputs.add((s['Input'],ref))
    c=collections.Counter(); ex=collections.defaultdict(list); n=0
    for q,ref in sorted(inputs):
        for e in m.parse(q, dt.datetime.strptime(ref,'%Y-%m-%dT%H:%M:%S')):
            if not e.resolution: continue
            for v in e.resolution.get('values',[]):
                if (v.get('timex') or '').startswith('('): n+=1
                r=check(v)
                if r:
                    k=r.split(':')[0]; c[k]+=1
                    if len(ex[k])<2: ex[k].append((q,ref,v))
    return cu,len(inputs),n,c,ex
if __name__=='__main__':
    with Pool(8) as p:
        for cu,ni,n,c,ex in p.map(work,['en-us','es-es','fr-fr','pt-br','it-it','de-de','nl-nl','zh-cn']):
            print(cu,ni,'supported inputs',n,'triple timexes',dict(c))
            for k,v in ex.items():
                for e in v[:2]: print('    ',k,str(e)[:260])
