import warnings, random, collections, datetime as dt
warnings.simplefilter('ignore')
from recognizers_date_time import DateTimeRecognizer
m = DateTimeRecognizer('en-us').get_datetime_model('en-us')
bad=collections.Counter(); tot=collections.Counter(); ex=collections.defaultdict(list)
def run(k,q,ref,pred):
    r=m.parse(q,ref); tot[k]+=1
    ok=False
    try:
        ok = len(r)==1 and r[0].start==0 and r[0].end==len(q)-1 and r[0].resolution is not None and pred(r[0])
    except Exception as e: ok=False
    if not ok:
        bad[k]+=1
        if len(ex[k])<4: ex[k].append((q,ref.isoformat(),[(x.text,x.type_name,x.resolution) for x in r]))
rnd=random.Random(5)
refs=[dt.datetime(2016,11,7,10,30),dt.datetime(2020,2,29,0,0),dt.datetime(2019,12,31,23,59,59),dt.datetime(2021,1,1),dt.datetime(2021,1,31,8),dt.datetime(2019,3,31),dt.datetime(2018,12,30),dt.datetime(2024,12,30),dt.datetime(2021,1,3),dt.datetime(2015,12,28)]
for _ in range(150):
    refs.append(dt.datetime(1950,1,1)+dt.timedelta(days=rnd.randrange(51500),seconds=rnd.randrange(86400)))
WD=['monday','tuesday','wednesday','thursday','friday','saturday','sunday']
def vals(e): return e.resolution['values']
def one_date(e,d,timex=None):
    v=vals(e); return e.type_name=='datetimeV2.date' and len(v)==1 and v[0]['value']==d.isoformat() and (timex is None or v[0]['timex']==timex)
def monday(d): return d-dt.timedelta(days=d.weekday())
for R in refs:
    D=R.date()
    for w,off in (('today',0),('tomorrow',1),('yesterday',-1)):
        run(w,w,R,lambda e: one_date(e,D+dt.timedelta(days=off),(D+dt.timedelta(days=off)).isoformat()))
    run('now','now',R,lambda e: e.type_name=='datetimeV2.datetime' and vals(e)[0]['value']==R.strftime('%Y-%m-%d %H:%M:%S') and vals(e)[0]['timex']=='PRESENT_REF')
    for N in (1,2,7,30,rnd.randrange(1,5000)):
        pl='s' if N!=1 else ''
        run('N days ago',f'{N} day{pl} ago',R,lambda e: one_date(e,D-dt.timedelta(days=N)))
        run('in N days',f'in {N} day{pl}',R,lambda e: one_date(e,D+dt.timedelta(days=N)))
        run('N days from now',f'{N} day{pl} from now',R,lambda e: one_date(e,D+dt.timedelta(days=N)))
        run('N weeks ago',f'{N} week{pl} ago',R,lambda e: one_date(e,D-dt.timedelta(days=7*N)))
        run('in N weeks',f'in {N} week{pl}',R,lambda e: one_date(e,D+dt.timedelta(days=7*N)))
    for i,w in enumerate(WD):
        run('next wd',f'next {w}',R,lambda e: one_date(e,monday(D)+dt.timedelta(days=7+i)))
        run('last wd',f'last {w}',R,lambda e: one_date(e,monday(D)+dt.timedelta(days=-7+i)))
        run('this wd',f'this {w}',R,lambda e: one_date(e,monday(D)+dt.timedelta(days=i)))
    for sw,word in ((0,'this'),(1,'next'),(-1,'last')):
        ms=monday(D)+dt.timedelta(days=7*sw); iso=(ms+dt.timedelta(days=3)).isocalendar()
        run(word+' week',f'{word} week',R,lambda e: e.type_name=='datetimeV2.daterange' and len(vals(e))==1 and vals(e)[0]['start']==ms.isoformat() and vals(e)[0]['end']==(ms+dt.timedelta(days=7)).isoformat() and vals(e)[0]['timex']==f'{iso[0]:04d}-W{iso[1]:02d}')
        y,mo=D.year,D.month+sw
        if mo==0: y,mo=y-1,12
        if mo==13: y,mo=y+1,1
        ny,nm=(y,mo+1) if mo<12 else (y+1,1)
        run(word+' month',f'{word} month',R,lambda e: e.type_name=='datetimeV2.daterange' and len(vals(e))==1 and vals(e)[0]['start']==dt.date(y,mo,1).isoformat() and vals(e)[0]['end']==dt.date(ny,nm,1).isoformat() and vals(e)[0]['timex']==f'{y:04d}-{mo:02d}')
        yy=D.year+sw
        run(word+' year',f'{word} year',R,lambda e: e.type_name=='datetimeV2.daterange' and len(vals(e))==1 and vals(e)[0]['start']==dt.date(yy,1,1).isoformat() and vals(e)[0]['end']==dt.date(yy+1,1,1).isoformat() and vals(e)[0]['timex']==f'{yy:04d}')
for k in sorted(tot):
    print(k, tot[k], bad[k])
    for e in ex[k]: print('    ',e)
