import warnings, random, collections, datetime as dt
warnings.simplefilter('ignore')
from recognizers_date_time import DateTimeRecognizer
m = DateTimeRecognizer('en-us').get_datetime_model('en-us')
ref=dt.datetime(2016,11,7,10,30,0)
bad=collections.Counter(); tot=collections.Counter(); ex=collections.defaultdict(list)
def chk(k,q,s,pred):
    r=m.parse(q,ref); tot[k]+=1
    st=q.index(s)
    ok = len(r)==1 and r[0].resolution is not None and r[0].start==st and r[0].end==st+len(s)-1 and pred(r[0])
    if not ok:
        bad[k]+=1
        if len(ex[k])<6: ex[k].append((q,[(x.text,x.type_name,x.resolution) for x in r]))
def tv(h,mi,s=0): return f'{h:02d}:{mi:02d}:{s:02d}'
def timex(h,mi,s=None):
    t=f'T{h:02d}'
    if mi or s is not None and s or mi==0 and s is None and False: pass
    return t
for h in range(24):
    for mi in range(0,60,1):
        s=f'{h:02d}:{mi:02d}'; 
        chk('HH:MM',f'at {s}',s,lambda e: e.type_name=='datetimeV2.time' and [v['value'] for v in e.resolution['values']]==[tv(h,mi)] and e.resolution['values'][0]['timex']==f'T{h:02d}:{mi:02d}')
        if mi%7==0:
          for sec in (0,1,30,59):
            s=f'{h:02d}:{mi:02d}:{sec:02d}'
            chk('HH:MM:SS',f'at {s}',s,lambda e: e.type_name=='datetimeV2.time' and [v['value'] for v in e.resolution['values']]==[tv(h,mi,sec)] and e.resolution['values'][0]['timex']==f'T{h:02d}:{mi:02d}:{sec:02d}')
for h in range(1,13):
    for ap in ('am','pm','a.m.','p.m.',' am',' pm','AM','PM'):
        H = (0 if h==12 else h) + (12 if 'p' in ap.lower() else 0)
        for mi in (None,0,5,30,59):
            s = f'{h}{ap}' if mi is None else f'{h}:{mi:02d}{ap}'
            mm = mi or 0
            chk('12h '+ap.strip().lower(), f'at {s}', s, lambda e: e.type_name=='datetimeV2.time' and [v['value'] for v in e.resolution['values']]==[tv(H,mm)])
    for mi in (0,5,30,59):
        s=f'{h}:{mi:02d}'
        chk('12h none', f'at {s}', s, lambda e: e.type_name=='datetimeV2.time' and sorted(v['value'] for v in e.resolution['values'])==sorted([tv(h%12,mi),tv(h%12+12,mi)]))
    s=f"{h} o'clock"
    chk('oclock', f'at {s}', s, lambda e: e.type_name=='datetimeV2.time' and sorted(v['value'] for v in e.resolution['values'])==sorted([tv(h%12,0),tv(h%12+12,0)]))
# date at time
for dstr,dval in [('2019-03-05','2019-03-05'),('March 5, 2019','2019-03-05'),('tomorrow','2016-11-08'),('5/3/2019','2019-05-03')]:
    for h in (0,9,12,15,23):
        for mi in (0,30):
            t=f'{h:02d}:{mi:02d}'; s=f'{dstr} at {t}'
            chk('date at HH:MM', s, s, lambda e: e.type_name=='datetimeV2.datetime' and [v['value'] for v in e.resolution['values']]==[f'{dval} {tv(h,mi)}'])
    for h in range(1,13):
        for ap in ('am','pm'):
            H = (0 if h==12 else h) + (12 if ap=='pm' else 0)
            t=f'{h}{ap}'; s=f'{dstr} at {t}'
            chk('date at 12h', s, s, lambda e: e.type_name=='datetimeV2.datetime' and [v['value'] for v in e.resolution['values']]==[f'{dval} {tv(H,0)}'])
for k in sorted(tot):
    print(k, tot[k], bad[k])
    for e in ex[k]: print('    ',e)
