import collections, datetime as dt, random, warnings
warnings.simplefilter('ignore')
from datatypes_timex_expression import Timex, TimexResolver, TimexRangeResolver
rnd=random.Random(1)
bad=collections.Counter(); tot=collections.Counter(); ex=collections.defaultdict(list)
def rec(k,ok,info):
    tot[k]+=1
    if not ok:
        bad[k]+=1
        if len(ex[k])<4: ex[k].append(info)
refs=[dt.datetime(2017,9,27),dt.datetime(2020,2,29),dt.datetime(2019,12,31),dt.datetime(2021,1,1)]+[dt.datetime(1950,1,1)+dt.timedelta(days=rnd.randrange(51000)) for _ in range(40)]
for R in refs:
    for dow in range(1,8):
        try:
            r=TimexResolver.resolve([f'XXXX-WXX-{dow}'],R.date() if False else R)
            v=[x.value for x in r.values]
            D=R.date(); 
            # immediately before and after reference date (strict)
            p=D-dt.timedelta(days=1)
            while p.isoweekday()!=dow: p-=dt.timedelta(days=1)
            n=D+dt.timedelta(days=1)
            while n.isoweekday()!=dow: n+=dt.timedelta(days=1)
            rec('weekday', v==[p.isoformat(),n.isoformat()], (R.isoformat(),dow,v,[p.isoformat(),n.isoformat()]))
        except Exception as e: rec('weekday',False,(R,dow,repr(e)))
    for mo in range(1,13):
        for y in (R.year, 1999):
            try:
                r=TimexResolver.resolve([f'{y:04d}-{mo:02d}'],R); x=r.values[0]
                ny,nm=(y,mo+1) if mo<12 else (y+1,1)
                rec('year-month', (x.start,x.end)==(f'{y:04d}-{mo:02d}-01',f'{ny:04d}-{nm:02d}-01'), (y,mo,x.start,x.end))
            except Exception as e: rec('year-month',False,(y,mo,repr(e)))
        try:
            r=TimexResolver.resolve([f'XXXX-{mo:02d}'],R); 
            got=[(x.start,x.end) for x in r.values]
            ny,nm=(0,mo+1) if mo<12 else (1,1)
            exp=[(f'{R.year-1:04d}-{mo:02d}-01',f'{R.year-1+ny:04d}-{nm:02d}-01'),(f'{R.year:04d}-{mo:02d}-01',f'{R.year+ny:04d}-{nm:02d}-01')]
            rec('month', got==exp,(R.year,mo,got))
        except Exception as e: rec('month',False,(mo,repr(e)))
    r=TimexResolver.resolve([f'{R.year:04d}'],R); x=r.values[0]
    rec('year',(x.start,x.end)==(f'{R.year:04d}-01-01',f'{R.year+1:04d}-01-01'),(R.year,x.start,x.end))
U={'Y':31536000,'M':2592000,'W':604800,'D':86400}; TU={'H':3600,'M':60,'S':1}
for n in (1,2,3,10,15,100,0.5,1.5):
    for u,s in U.items():
        r=TimexResolver.resolve([f'P{n}{u}'],refs[0]); rec('dur', r.values[0].value==str(int(n*s)) or r.values[0].value==str(n*s) or float(r.values[0].value)==n*s,(n,u,r.values[0].value))
    for u,s in TU.items():
        r=TimexResolver.resolve([f'PT{n}{u}'],refs[0]); rec('durT', float(r.values[0].value)==n*s,(n,u,r.values[0].value))
for k in tot:
    print(k,tot[k],bad[k])
    for e in ex[k]: print('   ',e)
