import collections, random, ipaddress, uuid, warnings
warnings.simplefilter('ignore')
from recognizers_sequence import SequenceRecognizer
rec=SequenceRecognizer('en-us')
ip=rec.get_ip_address_model('en-us'); guid=rec.get_guid_model('en-us'); em=rec.get_email_model(); url=rec.get_url_model('en-us'); ht=rec.get_hashtag_model(); me=rec.get_mention_model(); ph=rec.get_phone_number_model('en-us')
rnd=random.Random(1)
bad=collections.Counter(); tot=collections.Counter(); ex=collections.defaultdict(list)
def rec_(k,ok,info):
    tot[k]+=1
    if not ok:
        bad[k]+=1
        if len(ex[k])<5: ex[k].append(info)
B=[0,9,10,99,100,199,200,249,250,255]
carriers=['{}','my address is {} ok','ip {}','({})','{}, thanks']
def chk_ip(k,s,canon):
    for c in carriers:
        q=c.format(s); st=q.index(s); r=ip.parse(q)
        ok=len(r)==1 and r[0].start==st and r[0].end==st+len(s)-1
        if ok:
            try: ok = ipaddress.ip_address(r[0].resolution['value'])==canon
            except Exception: ok=False
        rec_(k,ok,(q,[(x.text,x.start,x.end,x.resolution) for x in r]))
import itertools
for a,b,c,d in itertools.product(B,repeat=4):
    if rnd.random()<0.08:
        s=f'{a}.{b}.{c}.{d}'; chk_ip('ipv4-boundary',s,ipaddress.ip_address(s))
for _ in range(1500):
    n=rnd.getrandbits(32); s=str(ipaddress.IPv4Address(n)); chk_ip('ipv4-rand',s,ipaddress.ip_address(s))
for _ in range(1500):
    n=rnd.getrandbits(128)
    # zero out random hextets to induce compression
    hs=[(n>>(16*i))&0xffff for i in range(8)]
    for i in range(8):
        if rnd.random()<0.4: hs[i]=0
    a=ipaddress.IPv6Address(':'.join('%x'%h for h in hs))
    chk_ip('ipv6-compressed',a.compressed,a); chk_ip('ipv6-exploded',a.exploded,a); chk_ip('ipv6-upper',a.compressed.upper(),a)
# near-miss
for _ in range(600):
    o=[rnd.randrange(256) for _ in range(4)]; i=rnd.randrange(4); o[i]=rnd.randrange(256,1000); s='.'.join(map(str,o))
    r=ip.parse(f'x {s} y')
    ok=True
    for e in r:
        try: ipaddress.ip_address(e.resolution['value'])
        except Exception: ok=False
    rec_('ipv4-nearmiss-sound',ok,(s,[(x.text,x.resolution) for x in r]))
    rec_('ipv4-nearmiss-none',len(r)==0,(s,[(x.text,x.resolution) for x in r]))
for _ in range(800):
    u=uuid.UUID(int=rnd.getrandbits(128))
    for k,s in (('guid-plain',str(u)),('guid-braced','{'+str(u)+'}'),('guid-upper',str(u).upper()),('guid-undashed',u.hex)):
        for c in carriers[:3]:
            q=c.format(s); st=q.index(s); r=guid.parse(q)
            ok=len(r)==1 and r[0].start==st and r[0].end==st+len(s)-1 and r[0].resolution['value']==s.lower()
            rec_(k,ok,(q,[(x.text,x.start,x.end,x.resolution) for x in r]))
for k in tot:
    print(k,tot[k],bad[k])
    for e in ex[k]: print('   ',e)
