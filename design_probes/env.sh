L=/repo/Python/libraries
export PYTHONPATH=/verif/shims:$L/recognizers-text:$L/recognizers-number:$L/recognizers-number-with-unit:$L/recognizers-date-time:$L/recognizers-sequence:$L/recognizers-choice:$L/datatypes-timex-expression:$L/recognizers-suite
export PYTHONDONTWRITEBYTECODE=1
