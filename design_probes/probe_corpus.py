import warnings, json, glob, re, collections, datetime as dt, sys, os
warnings.simplefilter('ignore')
from recognizers_text import Culture, QueryProcessor
from recognizers_suite import *
from recognizers_date_time import DateTimeRecognizer, DateTimeOptions
from recognizers_number import NumberRecognizer
from recognizers_number_with_unit import NumberWithUnitRecognizer
from recognizers_sequence import SequenceRecognizer
from recognizers_choice.choice.recognizers_choice import ChoiceRecognizer
CULT={'Chinese':'zh-cn','Dutch':'nl-nl','English':'en-us','French':'fr-fr','Italian':'it-it','Japanese':'ja-jp','Korean':'ko-kr','Portuguese':'pt-br','Spanish':'es-es','SpanishMexican':'es-mx','Turkish':'tr-tr','German':'de-de'}
def models():
    out=[]
    for rec in (NumberRecognizer(), NumberWithUnitRecognizer(), SequenceRecognizer(), ChoiceRecognizer(), DateTimeRecognizer()):
        for key in rec.model_factory.model_factories:
            out.append((type(rec).__name__, key.model_type, key.culture, rec.model_factory.get_model(key.model_type, key.culture, False, rec.options)))
    return out
MODELS=models()
print(len(MODELS),'models')
# gather inputs per culture
inputs=collections.defaultdict(set)
for f in glob.glob('/repo/Specs/**/*.json', recursive=True):
    parts=f.split('/'); lang=parts[4]
    if lang not in CULT and lang!='EnglishOthers': continue
    cu=CULT.get(lang,'en-us')
    for s in json.load(open(f,encoding='utf-8-sig')):
        ref=None
        ctx=s.get('Context') or {}
        if ctx.get('ReferenceDateTime'): ref=ctx['ReferenceDateTime'][:19]
        inputs[cu].add((s['Input'],ref))
print({k:len(v) for k,v in inputs.items()})
viol=collections.Counter(); exs=collections.defaultdict(list); n=0; ents=0
def norm(s): return QueryProcessor.preprocess(s)
for rname,mt,cu,model in MODELS:
    for q,ref in sorted(inputs.get(cu,()), key=str):
        try:
            if rname=='DateTimeRecognizer':
                r=model.parse(q, dt.datetime.strptime(ref,'%Y-%m-%dT%H:%M:%S') if ref else dt.datetime(2016,11,7))
            else: r=model.parse(q)
        except Exception as e:
            viol[(mt,cu,'EXC '+type(e).__name__)]+=1
            if len(exs[(mt,'EXC')])<3: exs[(mt,'EXC')].append((cu,q,repr(e)))
            continue
        n+=1
        spans=[]
        for e in r:
            if e is None:
                viol[(mt,cu,'None-entity')]+=1; continue
            ents+=1
            ok = 0<=e.start<=e.end<len(q)
            if not ok:
                viol[(mt,cu,'C01-bounds')]+=1
                if len(exs[(mt,'bounds')])<3: exs[(mt,'bounds')].append((cu,q,e.text,e.start,e.end))
            else:
                sl=q[e.start:e.end+1]
                if norm(sl).strip()!=norm(e.text).strip() or len(norm(q))!=len(q):
                    viol[(mt,cu,'C01-text')]+=1
                    if len(exs[(mt,'text')])<4: exs[(mt,'text')].append((cu,q,e.text,e.start,e.end,sl))
            spans.append((e.start,e.end))
        spans.sort()
        for a,b in zip(spans,spans[1:]):
            if b[0]<=a[1]:
                viol[(mt,cu,'C12-overlap')]+=1
                if len(exs[(mt,'ovl')])<4: exs[(mt,'ovl')].append((cu,q,[(e.text,e.start,e.end) for e in r if e]))
                break
print('calls',n,'entities',ents)
for k in sorted(viol, key=str): print(k, viol[k])
for k in sorted(exs, key=str):
    print(k)
    for e in exs[k]: print('     ',e)
