import warnings, json, glob, collections, datetime as dt, sys, re, os
warnings.simplefilter('ignore')
from multiprocessing import Pool
CULT={'Chinese':'zh-cn','Dutch':'nl-nl','English':'en-us','French':'fr-fr','Italian':'it-it','Japanese':'ja-jp','Korean':'ko-kr','Portuguese':'pt-br','Spanish':'es-es','SpanishMexican':'es-mx','Turkish':'tr-tr','German':'de-de'}
def work(f):
    from recognizers_number import recognize_number, recognize_ordinal, recognize_percentage
    from recognizers_number_with_unit import recognize_age, recognize_currency, recognize_dimension, recognize_temperature
    from recognizers_date_time import recognize_datetime
    from recognizers_sequence.sequence.sequence_recognizer import recognize_phone_number, recognize_email, recognize_ip_address, recognize_mention, recognize_hashtag, recognize_url, recognize_guid
    from recognizers_choice.choice.recognizers_choice import recognize_boolean
    from recognizers_date_time import DateTimeOptions
    F={'NumberModel':recognize_number,'OrdinalModel':recognize_ordinal,'PercentModel':recognize_percentage,'AgeModel':recognize_age,'CurrencyModel':recognize_currency,'DimensionModel':recognize_dimension,'TemperatureModel':recognize_temperature,'PhoneNumberModel':recognize_phone_number,'EmailModel':recognize_email,'IpAddressModel':recognize_ip_address,'MentionModel':recognize_mention,'HashtagModel':recognize_hashtag,'URLModel':recognize_url,'GUIDModel':recognize_guid,'BooleanModel':recognize_boolean}
    parts=f.split('/'); lang=parts[4]; name=os.path.splitext(parts[5])[0]; rec=parts[3]
    cu=CULT.get(lang)
    if not cu: return f,0,0,[]
    opt=None
    if rec=='DateTime':
        mm=re.match(r'DateTimeModel(.*)$',name)
        if not mm: return f,0,0,[]
        o=mm.group(1)
        if o not in('', 'CalendarMode','SplitDateAndTime'): return f,0,0,[]
        opt={'':DateTimeOptions.NONE,'CalendarMode':DateTimeOptions.CALENDAR,'SplitDateAndTime':DateTimeOptions.SPLIT_DATE_AND_TIME}[o]
    elif name not in F: return f,0,0,[]
    n=0;bad=[]
    for i,s in enumerate(json.load(open(f,encoding='utf-8-sig'))):
        if 'python' in s.get('NotSupported','') or 'python' in s.get('NotSupportedByDesign',''): continue
        n+=1
        try:
            if rec=='DateTime':
                ref=(s.get('Context') or {}).get('ReferenceDateTime'); ref=dt.datetime.strptime(ref[:19],'%Y-%m-%dT%H:%M:%S') if ref else None
                r=recognize_datetime(s['Input'],cu,opt,ref)
            else: r=F[name](s['Input'],cu)
        except Exception as e:
            bad.append((i,s['Input'],'EXC '+repr(e))); continue
        exp=s['Results']; why=None
        if len(r)!=len(exp): why='count'
        else:
            for a,e in zip(r,exp):
                if a is None: why='None'; break
                if 'Text' in e and a.text!=e['Text'] and a.text.lower()!=e['Text'].lower(): why='text'; break
                if 'TypeName' in e and a.type_name!=e['TypeName']: why='type'; break
                if 'Start' in e and a.start!=e['Start']: why='start'; break
                if 'End' in e and a.end!=e['End']: why='end'; break
                if 'Resolution' in e and e['Resolution'] is not None:
                    er=e['Resolution']; ar=a.resolution
                    if ar is None: why='res-None'; break
                    if 'values' in er:
                        av=ar.get('values') or []
                        if len(av)!=len(er['values']): why='values-count'; break
                        for x,y in zip(av,er['values']):
                            for k,v in y.items():
                                if x.get(k)!=v: why='values-field:'+k; break
                            if why: break
                            extra=set(x)-set(y)
                            if extra: why='values-extra:'+','.join(sorted(extra)); break
                        if why: break
                    else:
                        for k,v in er.items():
                            if k in ('score','otherResults'): continue
                            if str(ar.get(k))!=str(v) and ar.get(k)!=v: why='res-field:'+k; break
                        if why: break
        if why: bad.append((i,s['Input'],why))
    return f,n,len(bad),bad
if __name__=='__main__':
    files=sorted(glob.glob('/repo/Specs/*/*/*Model*.json'))
    with Pool(16) as p: res=p.map(work,files)
    tot=sum(r[1] for r in res); b=sum(r[2] for r in res)
    print('model-level supported cases',tot,'strict mismatches',b)
    c=collections.Counter()
    for f,n,nb,bad in res:
        if nb: print(f.replace('/repo/Specs/',''),n,nb, collections.Counter(w.split(':')[0] if not w.startswith('values-') else w for _,_,w in bad).most_common(4))
