import warnings, json, glob, re, collections, datetime as dt, sys, os
warnings.simplefilter('ignore')
from multiprocessing import Pool
CULT={'Chinese':'zh-cn','Dutch':'nl-nl','English':'en-us','French':'fr-fr','Italian':'it-it','Portuguese':'pt-br','Spanish':'es-es','German':'de-de','EnglishOthers':'en-us'}
D=r'(\d{4})-(\d{2})-(\d{2})'; T=r'(\d{2}):(\d{2}):(\d{2})'
def vdate(s):
    m=re.fullmatch(D,s)
    if not m: return False
    try: dt.date(*map(int,m.groups())); return True
    except ValueError: return False
def vtime(s):
    m=re.fullmatch(T,s)
    if not m: return False
    h,mi,se=map(int,m.groups()); return h<24 and mi<60 and se<60
def vdt(s):
    p=s.split(' '); return len(p)==2 and vdate(p[0]) and vtime(p[1])
def check(e):
    out=[]
    if e.resolution is None: return ['resolution-None']
    vals=e.resolution.get('values')
    if not isinstance(vals,list) or not vals: return ['no-values']
    tn=e.type_name
    for v in vals:
        ty=v.get('type')
        if tn!='datetimeV2.'+str(ty): out.append(f'type-mismatch:{tn}:{ty}')
        val=v.get('value'); st=v.get('start'); en=v.get('end'); tx=v.get('timex')
        if val=='not resolved': continue
        f={'date':vdate,'time':vtime,'datetime':vdt}.get(ty)
        if ty in('date','time','datetime'):
            present=[x for x in (val,st,en) if x is not None]
            if not present: out.append(ty+':no-value')
            for x in present:
                if not f(x): out.append(ty+':bad:'+str(x))
            if val is not None and tx and ty=='date' and re.fullmatch(D,tx) and tx!=val: out.append('date:timex!=value')
            if val is not None and tx and ty=='datetime' and re.fullmatch(D+'T'+r'\d{2}(:\d{2}(:\d{2})?)?',tx):
                t=tx.split('T'); tt=t[1]+(':00' if len(t[1])==5 else ':00:00' if len(t[1])==2 else '')
                if t[0]+' '+tt!=val: out.append('datetime:timex!=value')
        elif ty=='duration':
            if val is None or not re.fullmatch(r'\d+(\.\d+)?',str(val)): out.append('duration:bad:'+str(val))
        elif ty in('daterange','timerange','datetimerange'):
            g={'daterange':vdate,'timerange':vtime,'datetimerange':vdt}[ty]
            if st is None and en is None and val is None: out.append(ty+':empty')
            for x in (st,en):
                if x is not None and not g(x): out.append(ty+':bad:'+str(x))
            if ty=='daterange' and st and en and g(st) and g(en) and not st<en: out.append('daterange:start>=end')
        elif ty=='set': pass
        else: out.append('unknown-type:'+str(ty))
    return out
def work(cu):
    from recognizers_date_time import DateTimeRecognizer
    m=DateTimeRecognizer(cu).get_datetime_model(cu,False)
    inputs=set()
    for f in glob.glob('/repo/Specs/DateTime/*/*.json'):
        lang=f.split('/')[4]
        if CULT.get(lang)!=cu: continue
        for s in json.load(open(f,encoding='utf-8-sig')):
            ctx=s.get('Context') or {}; ref=(ctx.get('ReferenceDateTime') or '2016-11-07T00:00:00')[:19]
            inputs.add((s['Input'],ref))
    c=collections.Counter(); ex=collections.defaultdict(list); n=0
    for q,ref in sorted(inputs):
        for e in m.parse(q, dt.datetime.strptime(ref,'%Y-%m-%dT%H:%M:%S')):
            n+=1
            for p in check(e):
                key=re.sub(r'bad:.*','bad',p)
                c[key]+=1
                if len(ex[key])<3: ex[key].append((q,ref,e.text,e.type_name,p,e.resolution))
    return cu,len(inputs),n,c,ex
if __name__=='__main__':
    with Pool(8) as p:
        for cu,ni,n,c,ex in p.map(work,['en-us','es-es','fr-fr','pt-br','it-it','de-de','nl-nl','zh-cn']):
            print(cu,ni,'inputs',n,'entities',dict(c))
            for k,v in ex.items():
                for e in v[:2]: print('    ',k,str(e)[:330])
