import warnings, datetime as dt, random, collections
warnings.simplefilter('ignore')
from recognizers_date_time import DateTimeRecognizer
rnd=random.Random(3)
CFG={
 'es-es':dict(months=['enero','febrero','marzo','abril','mayo','junio','julio','agosto','septiembre','octubre','noviembre','diciembre'],dmy=True,name=lambda d,m:f'{d.day} de {m} de {d.year}',rel={'hoy':0,'mañana':1,'ayer':-1}),
 'fr-fr':dict(months=['janvier','février','mars','avril','mai','juin','juillet','août','septembre','octobre','novembre','décembre'],dmy=True,name=lambda d,m:f'{d.day} {m} {d.year}',rel={"aujourd'hui":0,'demain':1,'hier':-1}),
 'de-de':dict(months=['Januar','Februar','März','April','Mai','Juni','Juli','August','September','Oktober','November','Dezember'],dmy=True,name=lambda d,m:f'{d.day}. {m} {d.year}',rel={'heute':0,'morgen':1,'gestern':-1}),
 'pt-br':dict(months=['janeiro','fevereiro','março','abril','maio','junho','julho','agosto','setembro','outubro','novembro','dezembro'],dmy=True,name=lambda d,m:f'{d.day} de {m} de {d.year}',rel={'hoje':0,'amanhã':1,'ontem':-1}),
 'it-it':dict(months=['gennaio','febbraio','marzo','aprile','maggio','giugno','luglio','agosto','settembre','ottobre','novembre','dicembre'],dmy=True,name=lambda d,m:f'{d.day} {m} {d.year}',rel={'oggi':0,'domani':1,'ieri':-1}),
 'nl-nl':dict(months=['januari','februari','maart','april','mei','juni','juli','augustus','september','oktober','november','december'],dmy=True,name=lambda d,m:f'{d.day} {m} {d.year}',rel={'vandaag':0,'morgen':1,'gisteren':-1}),
 'zh-cn':dict(months=None,dmy=False,name=lambda d,m:f'{d.year}年{d.month}月{d.day}日',rel={'今天':0,'明天':1,'昨天':-1}),
}
for cu,c in CFG.items():
    m=DateTimeRecognizer(cu).get_datetime_model(cu,False)
    bad=collections.Counter(); tot=collections.Counter(); ex=collections.defaultdict(list)
    for _ in range(150):
        d=dt.date(1900,1,1)+dt.timedelta(days=rnd.randrange(73049)); ref=dt.datetime(rnd.randrange(1950,2091),rnd.randrange(1,13),rnd.randrange(1,29),rnd.randrange(24))
        forms={'iso':d.isoformat(),'numeric/':(f'{d.day}/{d.month}/{d.year}' if c['dmy'] else f'{d.year}/{d.month}/{d.day}'),'numeric-':(f'{d.day}-{d.month}-{d.year}' if c['dmy'] else f'{d.year}-{d.month}-{d.day}'),'name':c['name'](d,c['months'][d.month-1] if c['months'] else None)}
        for k,s in forms.items():
            r=m.parse(s,ref); tot[k]+=1
            ok=len(r)==1 and r[0].start==0 and r[0].end==len(s)-1 and r[0].resolution and len(r[0].resolution['values'])==1 and r[0].resolution['values'][0].get('value')==d.isoformat()==r[0].resolution['values'][0].get('timex')
            if not ok:
                bad[k]+=1
                if len(ex[k])<2: ex[k].append((s,[(x.text,x.type_name,x.resolution) for x in r]))
        for wd,off in c['rel'].items():
            r=m.parse(wd,ref); k='rel '+wd; tot[k]+=1; e=(ref.date()+dt.timedelta(days=off)).isoformat()
            ok=len(r)==1 and r[0].resolution and [v.get('value') for v in r[0].resolution['values']]==[e]
            if not ok:
                bad[k]+=1
                if len(ex[k])<2: ex[k].append((wd,ref.isoformat(),[(x.text,x.type_name,x.resolution) for x in r]))
    print(cu,{k:(tot[k],bad[k]) for k in tot})
    for k,v in ex.items():
        for e in v: print('    ',k,str(e)[:250])
