import sys, time, threading, random, warnings, datetime as dt, collections
warnings.simplefilter('ignore')
from recognizers_number import NumberRecognizer
from recognizers_date_time import DateTimeRecognizer
import recognizers_date_time.date_time.base_set as bs
nm=NumberRecognizer('en-us').get_number_model('en-us'); dm=DateTimeRecognizer('en-us').get_datetime_model('en-us')
qs=[('n','three point one four and 2/3 of twelve thousand'),('d','every 2 weeks starting next monday at 3pm'),('d','from March 5, 2019 to April 7, 2019'),('n','one hundred and one point five'),('d','every day at 9am')]
R=dt.datetime(2016,11,7,10,30)
def run(k,q): 
    r = nm.parse(q) if k=='n' else dm.parse(q,R)
    return [(e.text,e.start,e.end,str(e.resolution)) for e in r if e]
base={q:run(k,q) for k,q in qs}
t0=time.time(); 
for _ in range(20):
    for k,q in qs: run(k,q)
plain=time.time()-t0
mon=sys.monitoring; TID=mon.PROFILER_ID if False else 3
mon.use_tool_id(TID,'rtmon')
rnd=random.Random(1); lock=threading.Lock(); stats=collections.Counter(); points=set(); clock=[]
def on_line(code, line):
    if not code.co_filename.startswith('/repo/'): return mon.DISABLE
    stats['line']+=1
    if rnd.random()<0.02:
        stats['yield']+=1; points.add((code.co_filename.rsplit('/',1)[-1],line)); time.sleep(0)
def on_call(code, off, callable_, arg0):
    if callable_ in (dt.datetime.now, dt.date.today, time.time):
        clock.append((code.co_filename.rsplit('/',1)[-1], code.co_name))
mon.register_callback(TID, mon.events.LINE, on_line)
mon.register_callback(TID, mon.events.CALL, on_call)
mon.set_events(TID, mon.events.LINE|mon.events.CALL)
diff=[]
def worker(i):
    for rep in range(5):
        for k,q in qs:
            r=run(k,q)
            if r!=base[q]: diff.append((i,q,r))
t0=time.time()
ths=[threading.Thread(target=worker,args=(i,)) for i in range(4)]
[t.start() for t in ths]; [t.join() for t in ths]
el=time.time()-t0
mon.set_events(TID,0)
print('plain 100 calls %.2fs ; monitored 100 calls on 4 threads %.2fs'%(plain,el))
print(dict(stats),'distinct yield points',len(points)); print('clock reads',collections.Counter(clock))
print('diffs',len(diff)); print(diff[:3])
